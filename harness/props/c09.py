"""C09 — the container stays consistent under any sequence of add, delete and rename."""
import itertools
import json
import sys

from harness import core
from harness.driver import Driver, DriverError

sys.path.insert(0, '/repo')
from pydbml.classes import Column, Enum, EnumItem, Index, Expression, Note, Project, Reference, Table, TableGroup  # noqa: E402
from pydbml.database import Database  # noqa: E402
import pydbml.exceptions as pex  # noqa: E402
from harness.observe import StickyNote, classify  # noqa: E402

PID = 'C09'
THEOREMS = ['PyDBML.C09.step_inv', 'PyDBML.C09.reach_inv', 'PyDBML.C09.init_inv', 'PyDBML.C09.rejected_unchanged',
            'PyDBML.C09.tables_step', 'PyDBML.C09.lookup_sound', 'PyDBML.C09.project_replaced',
            'PyDBML.C09T.step_inv', 'PyDBML.C09T.reach_inv', 'PyDBML.C09T.init_inv', 'PyDBML.C09T.rejected_unchanged',
            'PyDBML.C09T.foreign_index_refused', 'PyDBML.C09T.accepted_index_subjects', 'PyDBML.C09T.cols_step']
MODULES = ['PyDBMLProofs.Props.C09', 'PyDBMLProofs.Props.C09Table']

# ---- universe -------------------------------------------------------------------------------------
UNIVERSE = {
    'T': [
        {'name': 'a', 'schema': 'public', 'alias': None, 'content': 0},
        {'name': 'a', 'schema': 'public', 'alias': None, 'content': 1},     # same full name, other content
        {'name': 'b', 'schema': 'public', 'alias': 'x', 'content': 0},
        {'name': 'b', 'schema': 'public', 'alias': 'x', 'content': 0},      # structurally equal twin of T2
        {'name': 'c', 'schema': 's', 'alias': 'x', 'content': 0},           # alias clash with T2
        {'name': 'd', 'schema': 'public', 'alias': 'public.a', 'content': 0},  # alias equal to T0's key
    ],
    # sig: (type, name, comment, on_update, on_delete, n1)
    'R': [
        {'sig': ('>', None, None, None, None, 1), 'cols': [[0, 0], [2, 0]]},
        {'sig': ('>', None, None, None, None, 1), 'cols': [[0, 0], [2, 0]], 'inline': True},  # equal, written inline
        {'sig': ('<', 'r', None, 'cascade', None, 1), 'cols': [[2, 1], [4, 0]]},
        {'sig': ('-', None, None, None, None, 1), 'cols': [[None, 0], [None, 1]]},          # no table at all
        {'sig': ('>', None, 'cm', None, None, 1), 'cols': [[0, 0], [2, 0]]},                 # differs in comment only
        {'sig': ('>', None, None, None, None, 1), 'cols': [[1, 0], [3, 0]]},                 # equal via twin tables
    ],
    'E': [
        {'name': 'e', 'schema': 'public', 'content': 0},
        {'name': 'e', 'schema': 'public', 'content': 0},   # equal twin
        {'name': 'e', 'schema': 'public', 'content': 1},   # same name, other items
        {'name': 'f', 'schema': 's', 'content': 0},
        {'name': 'z', 'schema': 's', 'content': 9},        # an enum without items (content 9 = no items)
        {'name': 'e', 'schema': 's', 'content': 0},        # the namesake of E[0] in another schema: no clash
        {'name': 'f', 'schema': 's', 'content': 1},        # clashes with E[3] OUTSIDE the default schema (same schema.name, other items)
    ],
    'G': [{'name': 'g'}, {'name': 'g'}, {'name': 'h'}],
    # sticky notes: N[1] is a look-alike of N[0] (same name, same text): containment goes by the object, not by its looks
    # ... and N[3] has an empty text (it is falsy: `StickyNote.__bool__` is `bool(text)`)
    'N': 4, 'P': 2,
}
RENAMES = ['a', 'b', 'zz']
SCHEMAS = ['public', 's']
ALIASES = [None, 'x', 'y']


def sig_key(sig):
    typ, name, comment, upd, dele, n1 = sig
    return (typ, name, upd, dele, n1)       # `Reference.__eq__` ignores the comment


def sig_ids(u):
    ids = {}
    for r in u['R']:
        ids.setdefault(sig_key(r['sig']), len(ids))
    return ids


def lean_universe(u):
    ids = sig_ids(u)
    return {'T': u['T'], 'R': [{'sig': ids[sig_key(r['sig'])], 'cols': r['cols']} for r in u['R']],
            'E': u['E'], 'G': u['G'], 'N': u['N'], 'P': u['P']}


class World:
    def __init__(self, u):
        self.db = Database()
        self.T = []
        for t in u['T']:
            tb = Table(t['name'], schema=t['schema'], alias=t['alias'], note=f"c{t['content']}")
            tb.add_column(Column('id', 'int'))
            tb.add_column(Column('x', 'int'))
            self.T.append(tb)
        self.R = []
        for r in u['R']:
            typ, name, comment, upd, dele, n1 = r['sig']
            cols = []
            for owner, key in r['cols']:
                cols.append(self.T[owner].columns[key] if owner is not None else Column(['id', 'x'][key], 'int'))
            self.R.append(Reference(typ, cols[:n1], cols[n1:], name=name, comment=comment, on_update=upd,
                                    on_delete=dele, inline=r.get('inline', False)))
        self.E = [Enum(e['name'], [EnumItem(f"i{e['content']}")] if e['content'] != 9 else [], schema=e['schema']) for e in u['E']]
        self.G = [TableGroup(g['name'], []) for g in u['G']]
        self.N = [StickyNote(['n0', 'n0', 'n1'][i] if i < 3 else f'n{i}', 'text' if i != 3 else '') for i in range(u['N'])]
        self.P = [Project(f'p{i}') for i in range(u['P'])]
        self.other = [Column('zz', 'int'), 'a string', 42]
        self.exp = {'table': [], 'ref': [], 'enum': [], 'group': [], 'sticky': [], 'project': None}

    def objs(self, kind):
        return {'table': self.T, 'ref': self.R, 'enum': self.E, 'group': self.G, 'sticky': self.N,
                'project': self.P, 'other': self.other}[kind]

    def idx(self, lst, obj):
        for i, x in enumerate(lst):
            if x is obj:
                return i
        return None

    def dump(self):
        db = self.db
        d = {
            'tables': [self.idx(self.T, t) for t in db.tables],
            'refs': [self.idx(self.R, r) for r in db.refs],
            'enums': [self.idx(self.E, e) for e in db.enums],
            'groups': [self.idx(self.G, g) for g in db.table_groups],
            'sticky': [self.idx(self.N, n) for n in db.sticky_notes],
            'project': self.idx(self.P, db.project) if db.project is not None else None,
            'dict': sorted([k, self.idx(self.T, v)] for k, v in db.table_dict.items()),
            'T': [[t.name, t.schema, t.alias, t.database is db] for t in self.T],
            'R': [r.database is db for r in self.R],
            'E': [e.database is db for e in self.E],
            'G': [g.database is db for g in self.G],
            'N': [n.database is db for n in self.N],
            'P': [p.database is db for p in self.P],
        }
        return d


def apply_op(w, op, variant=0):
    """-> (outcome, returned object)"""
    db = w.db
    tag = op[0]
    try:
        if tag == 'add':
            obj = w.objs(op[1])[op[2] % len(w.objs(op[1]))] if op[1] == 'other' else w.objs(op[1])[op[2]]
            if variant and op[1] != 'other':
                meth = {'table': db.add_table, 'ref': db.add_reference, 'enum': db.add_enum, 'group': db.add_table_group,
                        'sticky': db.add_sticky_note, 'project': db.add_project}[op[1]]
                return 'ok', meth(obj)
            return 'ok', db.add(obj)
        if tag == 'delete':
            obj = w.objs(op[1])[op[2] % len(w.objs(op[1]))] if op[1] == 'other' else w.objs(op[1])[op[2]]
            if variant and op[1] in ('table', 'ref', 'enum', 'group'):
                meth = {'table': db.delete_table, 'ref': db.delete_reference, 'enum': db.delete_enum,
                        'group': db.delete_table_group}[op[1]]
                return 'ok', meth(obj)
            return 'ok', db.delete(obj)
        if tag == 'deleteProject':
            return 'ok', db.delete_project()
        if tag == 'setName':
            w.T[op[1]].name = op[2]
        elif tag == 'setSchema':
            w.T[op[1]].schema = op[2]
        elif tag == 'setAlias':
            w.T[op[1]].alias = op[2]
        return 'ok', None
    except pex.DatabaseValidationError:
        return 'rejected', None
    except Exception as e:  # noqa: BLE001
        return 'raised:' + type(e).__name__, None


def before_refs(w, before):
    """the references contained before the step (the rejected step changed nothing, so: now)"""
    return list(w.db.refs)


def keys_distinct(w):
    keys = []
    for t in w.db.tables:
        keys.append(t.full_name)
        if t.alias:
            keys.append(t.alias)
    return len(keys) == len(set(keys))


def describe_ref(r):
    """what a reference says, by names (schema-qualified): two references are "identical" when this agrees
    (the comment and the inline flag do not count)"""
    def side(cols):
        return [((c.table.full_name if c.table is not None else None), c.name, str(c.type), c.pk, c.unique, c.not_null) for c in cols]
    return (r.type, r.name, r.on_update, r.on_delete, side(r.col1), side(r.col2))


def oracle_step(w, op, outcome, ret, before):
    """Model-free checks after one step -> list of (what, reason)."""
    db = w.db
    fails = []
    kind = op[1] if op[0] in ('add', 'delete') else None
    if kind == 'ref' and op[0] == 'add' and outcome == 'rejected':
        obj = w.R[op[2]]
        contained = any(obj is x for x in before_refs(w, before))
        try:
            ident = any(describe_ref(x) == describe_ref(obj) for x in before_refs(w, before))
            no_table = not any(c.table is not None and any(c.table is t for t in db.tables) for c in list(obj.col1) + list(obj.col2))
            if not contained and not ident and not no_table:
                fails.append(('a reference is refused as a duplicate although no contained reference has the same endpoints '
                              '(schema-qualified table, column), kind, name and actions', None))
        except Exception:  # noqa: BLE001
            pass
    if kind == 'ref' and op[0] == 'add' and outcome == 'ok':
        obj = w.R[op[2]]
        tabs = [c.table for c in list(obj.col1) + list(obj.col2)]
        if not any(t is not None and any(t is x for x in db.tables) for t in tabs):
            fails.append(('a reference none of whose tables is in the database (the very objects, not look-alikes) was accepted', None))
    if kind == 'ref' and op[0] == 'delete' and outcome == 'ok' and ret is not None:
        obj = w.R[op[2]]
        try:
            if ret is not obj and describe_ref(ret) != describe_ref(obj):
                fails.append(('delete removed a reference that is neither the argument nor identical to it (endpoints by '
                              'schema-qualified names, kind, name, actions)', None))
        except Exception:  # noqa: BLE001
            pass
    if kind == 'enum' and op[0] == 'add' and not outcome.startswith('raised'):
        # the rule for enums: one per (schema, name) - in EVERY schema -, decided from the universe's own description
        obj = UNIVERSE['E'][op[2]]
        held = [UNIVERSE['E'][i] for i in before['enums'] if i is not None]
        clash = any((x['schema'], x['name']) == (obj['schema'], obj['name']) for x in held)
        if outcome == 'ok' and clash:
            fails.append(('an enum was accepted although an enum with the same schema and name is contained', None))
        if outcome == 'rejected' and not clash:
            fails.append(('an enum is refused although no contained enum has its schema and name', None))
    if kind == 'sticky' and op[0] in ('add', 'delete') and not outcome.startswith('raised'):
        # sticky notes have no rule of their own: one is refused only when that very object is already contained, and only a
        # contained one can be deleted (a look-alike with the same name and text is another note)
        obj = w.N[op[2]]
        was_in = any(obj is w.N[i] for i in before['sticky'] if i is not None)
        if op[0] == 'add' and outcome == 'rejected' and not was_in:
            fails.append(('a sticky note that is not contained is refused (a look-alike is contained)', None))
        if op[0] == 'delete' and outcome == 'ok' and not was_in:
            fails.append(('deleting a sticky note that is absent is accepted (a contained look-alike is removed instead)', None))
    # track expectations from outcomes
    if outcome == 'ok' and op[0] == 'add' and kind != 'other':
        obj = w.objs(kind)[op[2]]
        if kind == 'project':
            w.exp['project'] = obj
        else:
            w.exp[kind].append(obj)
    if outcome == 'ok' and (op[0] == 'delete' or op[0] == 'deleteProject'):
        k2 = 'project' if op[0] == 'deleteProject' else kind
        if k2 == 'project':
            w.exp['project'] = None
        else:
            lst = w.exp[k2]
            i = w.idx(lst, ret)
            if i is None:
                fails.append(('delete returned an object that was not contained', None))
            else:
                lst.pop(i)
    after = w.dump()
    if outcome == 'rejected' and after != before:
        fails.append(('a rejected operation changed the database', None))
    if outcome.startswith('raised'):
        fails.append((f'operation escaped with {outcome[7:]} instead of the validation error',
                      'RenameStaleDict' if outcome == 'raised:KeyError' else None))
        if after != before:
            fails.append(('a failed operation left the database half-changed',
                          'RenameStaleDict' if outcome == 'raised:KeyError' else None))
        # resynchronise expectations with what is there, to keep checking the rest of the history
        w.exp['table'] = list(db.tables)
    pairs = [('table', db.tables), ('ref', db.refs), ('enum', db.enums), ('group', db.table_groups), ('sticky', db.sticky_notes)]
    for k, lst in pairs:
        if len(lst) != len(w.exp[k]) or any(a is not b for a, b in zip(lst, w.exp[k])):
            fails.append((f'{k} list is not "added and not deleted, in insertion order"', None))
        for o in w.objs(k):
            contained = any(o is x for x in lst)
            if (o.database is db) != contained:
                fails.append((f'{k} back-pointer disagrees with containment', None))
    if db.project is not w.exp['project']:
        fails.append(('project is not the last one set', None))
    for p in w.P:
        if (p.database is db) != (p is db.project):
            fails.append(('project back-pointer disagrees with containment', None))
    if list(db) != list(db.tables) or any(db[i] is not t for i, t in enumerate(db.tables)):
        fails.append(('iteration / positional lookup disagree with the table list', None))
    if keys_distinct(w):
        want = {}
        for t in db.tables:
            want[t.full_name] = t
            if t.alias:
                want[t.alias] = t
        got = dict(db.table_dict)
        if set(got) != set(want) or any(got[k] is not want[k] for k in want):
            fails.append(('lookup by full name / alias does not find exactly the contained tables under their current names',
                          'RenameStaleDict'))
        else:
            for k, t in want.items():
                try:
                    if db[k] is not t:
                        fails.append(('db[key] returns another table', None))
                except Exception:  # noqa: BLE001
                    fails.append(('db[key] raises for a contained table', None))
    if op[0] == 'delete' and kind == 'sticky' and outcome == 'rejected' and any(w.N[op[2]] is x for x in db.sticky_notes):
        fails.append(('a contained sticky note cannot be deleted', 'DeleteSticky'))
    return fails, after


def all_ops():
    ops = []
    u = UNIVERSE
    for k, n in (('table', len(u['T'])), ('ref', len(u['R'])), ('enum', len(u['E'])), ('group', len(u['G'])),
                 ('sticky', u['N']), ('project', u['P']), ('other', 2)):
        for i in range(n):
            ops.append(['add', k, i])
            ops.append(['delete', k, i])
    ops.append(['deleteProject'])
    for i in range(len(u['T'])):
        for n in RENAMES:
            ops.append(['setName', i, n])
        for s in SCHEMAS:
            ops.append(['setSchema', i, s])
        for a in ALIASES:
            ops.append(['setAlias', i, a])
    return ops


CORE_OPS = [['add', 'table', 0], ['add', 'table', 1], ['add', 'table', 2], ['add', 'table', 3], ['add', 'table', 4],
            ['add', 'table', 5], ['delete', 'table', 0], ['delete', 'table', 3], ['delete', 'table', 2],
            ['add', 'ref', 0], ['add', 'ref', 1], ['add', 'ref', 3], ['add', 'ref', 4], ['add', 'ref', 5], ['delete', 'ref', 1],
            ['add', 'enum', 0], ['add', 'enum', 1], ['add', 'enum', 2], ['delete', 'enum', 1],
            ['add', 'group', 0], ['add', 'group', 1], ['delete', 'group', 0],
            ['add', 'sticky', 0], ['delete', 'sticky', 0], ['add', 'sticky', 1], ['delete', 'sticky', 1], ['add', 'sticky', 3], ['delete', 'sticky', 3], ['add', 'enum', 3], ['add', 'enum', 4], ['delete', 'enum', 4], ['add', 'enum', 5], ['add', 'enum', 6], ['add', 'project', 0], ['add', 'project', 1], ['deleteProject'],
            ['add', 'other', 0], ['delete', 'other', 0],
            ['setName', 0, 'b'], ['setName', 2, 'zz'], ['setAlias', 2, 'y'], ['setSchema', 0, 's'], ['setAlias', 4, None]]


def gen_histories(ctx):
    rng = ctx.rng
    ops = all_ops()
    hs = []
    depth = 2
    for h in itertools.product(range(len(CORE_OPS)), repeat=depth):
        hs.append([CORE_OPS[i] for i in h])
    n3 = 4000 if not ctx.thorough else 39304
    if ctx.thorough:
        for h in itertools.product(range(len(CORE_OPS)), repeat=3):
            hs.append([CORE_OPS[i] for i in h])
    else:
        for _ in range(n3):
            hs.append([CORE_OPS[rng.randrange(len(CORE_OPS))] for _ in range(3)])
    for _ in range(1500 if not ctx.thorough else 30000):
        n = rng.randint(4, 60)
        # bias towards adds first so that the container is populated
        h = []
        for j in range(n):
            op = ops[rng.randrange(len(ops))]
            if j < 6 and rng.random() < 0.7:
                op = ['add', rng.choice(['table', 'table', 'ref', 'enum', 'group', 'sticky', 'project']), 0]
                op[2] = rng.randrange({'table': 6, 'ref': 6, 'enum': 7, 'group': 3, 'sticky': 4, 'project': 2}[op[1]])
            h.append(op)
        hs.append(h)
    return hs


def impl_job(job):
    k, hist = job
    w = World(UNIVERSE)
    steps = []
    fails = []
    before = w.dump()
    for j, op in enumerate(hist):
        outcome, ret = apply_op(w, op, variant=(k + j) % 2)
        fs, after = oracle_step(w, op, outcome, ret, before)
        for what, reason in fs:
            fails.append({'step': j, 'what': what, 'reason': reason})
        steps.append({'outcome': outcome, 'state': after})
        before = after
    return {'steps': steps, 'fails': fails}


def norm_model_state(s):
    s = dict(s)
    s['dict'] = sorted(s['dict'])
    return s


def part_db(ctx, drv):
    hs = gen_histories(ctx)
    res = core.pmap(impl_job, list(enumerate(hs)))
    model = None
    if drv is not None:
        lu = lean_universe(UNIVERSE)
        model = drv.ask_many({'op': 'hist', 'universe': lu, 'ops': h} for h in hs)
    for k, (h, r) in enumerate(zip(hs, res)):
        outs = [s['outcome'] for s in r['steps']]
        nontrivial = 'ok' in outs and ('rejected' in outs or any(o.startswith('raised') for o in outs))
        ctx.case(core.h(h), nontrivial, sample={'history': h, 'outcomes': outs} if nontrivial and k % 400 == 0 else None)
        ctx.count('steps', len(h))
        for o in outs:
            ctx.count('outcome:' + o)
        for f in r['fails'][:3]:
            ctx.fail(f['what'], {'op': 'hist', 'history': h[:f['step'] + 1]}, reason=f['reason'])
        if model is not None:
            ms = model[k].get('steps')
            if ms is None:
                ctx.diverge('hist', {'op': 'hist', 'history': h}, model[k], '(implementation ran)')
                continue
            for j, (a, b) in enumerate(zip(ms, r['steps'])):
                ma = {'outcome': a['outcome'], 'state': norm_model_state(a['state'])}
                if ma != b:
                    reason = None
                    if any(f['reason'] == 'RenameStaleDict' for f in r['fails'] if f['step'] <= j):
                        reason = 'RenameStaleDict'
                    diff = [key for key in ma['state'] if ma['state'][key] != b['state'].get(key)]
                    ctx.diverge('container step (outcome + canonical state)', {'op': 'hist', 'history': h[:j + 1]},
                                {'outcome': ma['outcome'], 'differs_in': diff, **{k2: ma['state'][k2] for k2 in diff}},
                                {'outcome': b['outcome'], **{k2: b['state'].get(k2) for k2 in diff}}, reason=reason)
                    break


# ---- one level down: columns and indexes of a table ---------------------------------------------------
def table_hist_job(job):
    """Random operation history on one table; oracle + trace for the model."""
    import random
    seed, n = job
    rng = random.Random(seed)
    t = Table('t')
    u = Table('u')
    foreign = Column('f', 'int')
    u.add_column(foreign)
    cols = [Column(nm, 'int') for nm in ('a', 'b', 'a', 'c')]     # two columns share a name
    idxs = []
    trace = []
    fails = []
    exp_cols, exp_idx = [], []

    def cidx(c):
        return next((k for k, x in enumerate(cols) if x is c), -1)

    def dump():
        return {'cols': [cidx(c) for c in t.columns],
                'idx': [next((k for k, x in enumerate(idxs) if x is i), -1) for i in t.indexes],
                'ctable': [c.table is t for c in cols], 'itable': [i.table is t for i in idxs]}

    # the same history for the Lean model (PyDBMLModel/TableCont.lean): universe = the four columns + the foreign one
    icls = {}
    mop = None

    def mstate():
        own = lambda c: 1 if c.table is t else (0 if c.table is None else 2)  # noqa: E731
        return {'cols': [cidx(c) for c in t.columns], 'idxs': [next((k for k, x in enumerate(idxs) if x is i), -1) for i in t.indexes],
                'owner': [own(c) for c in cols] + [own(foreign)], 'attached': [i.table is t for i in idxs]}
    for _ in range(n):
        r = rng.random()
        before = dump()
        op = None
        mop = None
        out = 'ok'
        try:
            if r < 0.25:
                free = [k for k, c in enumerate(cols) if c.table is None]
                if not free:
                    continue
                k = rng.choice(free)
                op = mop = ['add_column', k]
                t.add_column(cols[k])
                exp_cols.append(cols[k])
            elif r < 0.4:
                if rng.random() < 0.5 and t.columns:
                    k = rng.randrange(len(t.columns))
                    op = mop = ['delete_column_pos', k]
                    got = t.delete_column(k)
                    if got is not exp_cols[k]:
                        fails.append('delete_column(int) returned another column')
                    exp_cols.pop(k)
                    if got.table is not None:
                        fails.append('deleted column still points to the table')
                else:
                    k = rng.randrange(len(cols))
                    op = mop = ['delete_column_obj', k]
                    # membership by what the column says (not by the implementation's own __eq__)
                    member = any(cols[k] is x or (cols[k].name == x.name and str(cols[k].type) == str(x.type)) for x in t.columns)
                    got = t.delete_column(cols[k])
                    if not member:
                        fails.append('delete_column of an absent column succeeded')
                    else:
                        # the removed member is the first one equal to the argument (a structural twin counts)
                        if not (got is cols[k] or got.name == cols[k].name) or got.table is not None:
                            fails.append('delete_column returned a column that is not (equal to) the argument, or left it attached')
                        exp_cols.pop(cidx_in(exp_cols, got))
            elif r < 0.6:
                subj = []
                for _ in range(rng.randint(1, 2)):
                    q = rng.random()
                    if q < 0.6 and t.columns:
                        subj.append(rng.choice(t.columns))
                    elif q < 0.75:
                        subj.append(foreign)
                    elif q < 0.85:
                        det = [c for c in cols if c.table is None]
                        subj.append(det[0] if det else Expression('x+1'))
                    else:
                        subj.append(Expression('x+1'))
                if idxs and rng.random() < 0.35:
                    # a twin of an earlier index: same subjects and name, another note / comment / flag - or none (a full twin)
                    src = rng.choice(idxs)
                    subj = list(src.subjects)
                    ix = Index(subj, name=src.name, unique=src.unique, pk=src.pk, note=src.note.text or None, comment=src.comment)
                    what = rng.choice(['note', 'comment', 'unique', 'none'])
                    if what == 'note':
                        ix.note = Note(f'twin note {len(idxs)}')
                    elif what == 'comment':
                        ix.comment = f'twin comment {len(idxs)}'
                    elif what == 'unique':
                        ix.unique = not ix.unique
                else:
                    ix = Index(subj, name=f'i{len(idxs)}')
                idxs.append(ix)
                before = dump()
                op = ['add_index', [cidx(s) if isinstance(s, Column) else 'expr' for s in subj]]
                key = (ix.name, ix.unique, ix.type, ix.pk, ix.note.text, ix.comment)
                mop = ['new_index', [(4 if s is foreign else cidx(s)) if isinstance(s, Column) else ['expr', 0] for s in subj],
                       icls.setdefault(key, len(icls))]
                bad = any(isinstance(s, Column) and s.table is not t for s in subj)
                t.add_index(ix)
                if bad:
                    fails.append('an index over a column of another table / a detached column was accepted')
                exp_idx.append(ix)
            elif r < 0.75 and idxs:
                if rng.random() < 0.5 and t.indexes:
                    k = rng.randrange(len(t.indexes))
                    op = mop = ['delete_index_pos', k]
                    got = t.delete_index(k)
                    if got is not exp_idx[k] or got.table is not None:
                        fails.append('delete_index(int) inconsistent')
                    exp_idx.pop(k)
                else:
                    k = rng.randrange(len(idxs))
                    op = mop = ['delete_index_obj', k]
                    def full_eq(a, b):
                        return (len(a.subjects) == len(b.subjects) and all(x is y or (not isinstance(x, Column) and str(x) == str(y)) for x, y in zip(a.subjects, b.subjects))
                                and (a.name, a.unique, a.type, a.pk, a.note.text, a.comment) == (b.name, b.unique, b.type, b.pk, b.note.text, b.comment))
                    member = any(idxs[k] is x or full_eq(idxs[k], x) for x in t.indexes)
                    got = t.delete_index(idxs[k])
                    if not member:
                        fails.append('delete_index of an absent index succeeded')
                    else:
                        # the member that goes is the argument itself, or an earlier member equal to it in EVERY attribute
                        if not (got is idxs[k] or full_eq(got, idxs[k])) or got.table is not None:
                            fails.append('delete_index removed an index that is not the argument nor equal to it in every attribute (note, comment, flags), or left it attached')
                        exp_idx.pop(cidx_in(exp_idx, got))
            else:
                nm = rng.choice(['a', 'b', 'c', 'zz'])
                op = ['lookup', nm]
                first = next((c for c in t.columns if c.name == nm), None)
                try:
                    got = t[nm]
                    if got is not first:
                        fails.append('name lookup returned another column')
                except pex.ColumnNotFoundError:
                    if first is not None:
                        fails.append('name lookup failed for a present column')
                if t.get(nm) is not first:
                    fails.append('get() disagrees with lookup')
                if t.get(99) is not None:
                    fails.append('get(out of range) is not None')
        except pex.ColumnNotFoundError:
            out = 'ColumnNotFound'
        except pex.IndexNotFoundError:
            out = 'IndexNotFound'
        except Exception as e:  # noqa: BLE001
            out = 'raised:' + type(e).__name__
            fails.append('operation escaped with ' + type(e).__name__)
        after = dump()
        if out != 'ok' and after != before and op and op[0] != 'add_index':
            fails.append('a rejected table operation changed the table')
        if out != 'ok' and op and op[0] == 'add_index':
            idxs[-1].table  # noqa: B018
            if after != before:
                fails.append('a refused index changed the table')
        # invariants
        if len(t.columns) != len(exp_cols) or any(a is not b for a, b in zip(t.columns, exp_cols)):
            fails.append('column list is not "added and not deleted, in order"')
        if len(t.indexes) != len(exp_idx) or any(a is not b for a, b in zip(t.indexes, exp_idx)):
            fails.append('index list is not "added and not deleted, in order"')
        for c in cols:
            if (c.table is t) != any(c is x for x in t.columns):
                fails.append('column back-pointer disagrees with containment')
        for i in idxs:
            if (i.table is t) != any(i is x for x in t.indexes):
                fails.append('index back-pointer disagrees with containment')
        for i in t.indexes:
            for s in i.subjects:
                if isinstance(s, Column) and s.table is not t and any(s is x for x in cols) and s.table is not None:
                    fails.append('index subject belongs to another table')
        trace.append({'op': op, 'out': out, 'state': after, 'mop': mop, 'mstate': mstate()})
    return {'trace': trace, 'fails': fails}


def cidx_in(lst, obj):
    for i, x in enumerate(lst):
        if x is obj:
            return i
    raise AssertionError('expectation list out of sync')


def part_table(ctx, drv):
    n = 1500 if not ctx.thorough else 30000
    jobs = [(f'{ctx.seed}:{i}', 30) for i in range(n)]
    res = core.pmap(table_hist_job, jobs)
    for (seed, _), r in zip(jobs, res):
        outs = [s['out'] for s in r['trace']]
        ctx.case(core.h(['tbl', [s['op'] for s in r['trace']]]), 'ok' in outs and any(o != 'ok' for o in outs),
                 sample={'table_history': [s['op'] for s in r['trace']][:12], 'outcomes': outs[:12]} if seed.endswith(':7') else None)
        for o in outs:
            ctx.count('table-op:' + o)
        for f in r['fails'][:2]:
            ctx.fail(f, {'op': 'table_hist', 'seed': seed}, reason=None)
    # correspondence with the Lean table-level state machine, step by step
    if drv is not None:
        uni = {'C': [[0, 0], [1, 0], [0, 0], [2, 0], [9, 2]]}
        hs = [[st for st in r['trace'] if st.get('mop')] for r in res]
        model = drv.ask_many({'op': 'thist', 'universe': uni, 'ops': [st['mop'] for st in h]} for h in hs)
        want = {'ok': 'ok', 'ColumnNotFound': 'not-found', 'IndexNotFound': 'not-found'}
        for (seed, _), h, m in zip(jobs, hs, model):
            steps = m.get('steps')
            if steps is None:
                ctx.diverge('table-level history (model reply)', {'op': 'thist', 'seed': seed}, m, 'steps')
                continue
            for j, (st, ms) in enumerate(zip(h, steps)):
                ctx.count('thist-step')
                impl = {'outcome': want.get(st['out'], st['out']), 'state': st['mstate']}
                if ms != impl:
                    ctx.diverge('table-level container step (outcome + lists + back-pointers)',
                                {'op': 'thist', 'seed': seed, 'universe': uni, 'ops': [x['mop'] for x in h[:j + 1]]}, ms, impl)
                    break


def kf_replay(f):
    w = World(UNIVERSE)
    before = w.dump()
    fails = []
    for j, op in enumerate(f['witness']['history']):
        outcome, ret = apply_op(w, op)
        fs, before = oracle_step(w, op, outcome, ret, before)
        fails += fs
    return any(r == f['reason'] for _, r in fails)


def main(tier, seed):
    ctx = core.Ctx(PID, tier, seed, 'proof', THEOREMS, MODULES)
    ctx.build()
    problems = ctx.audit() if ctx.build_ok else ['lake build failed']
    drv = None
    try:
        drv = Driver()
    except DriverError as e:
        ctx.notes.append(str(e))
    try:
        part_db(ctx, drv)
        part_table(ctx, drv)
    finally:
        if drv is not None:
            drv.close()
    return ctx.finish(
        rule='universe of 6 tables / 6 references / 7 enums (twins, a namesake in another schema, a clash outside the default schema) / 3 groups / 4 sticky notes (two look-alikes, one with an empty text)  / 2 projects built to clash (same full '
             'name, structurally equal twins, alias equal to another key, identical reference inline and standalone, reference '
             'with no table, enum twins); histories: all pairs (quick) / triples (thorough) over 40 core operations, random '
             'triples, random histories of 4-60 operations incl. renames; canonical state + outcome compared after every step. '
             'Table level: random histories of 30 column/index operations. Non-trivial: at least one successful and one '
             'rejected operation; distinct by history hash',
        explanation='Lean state machine of Database (lean/PyDBMLModel/Container.lean) with the container invariant proved for '
                    'every step and, by induction, every history; rejected operations leave the state unchanged; lookup is '
                    'sound and complete for the current names. Tied to the real classes by running the same histories on both '
                    'sides. One level down (lean/PyDBMLModel/TableCont.lean, PyDBMLProofs/Props/C09Table.lean): a table as a container of '
                    'its columns and indexes - the lists hold no object twice and agree with the owner back-pointers in every reachable '
                    'state, a refused operation changes nothing, an index over a column the table does not hold is refused, the column list '
                    'is added-and-not-deleted in insertion order; tied by the same step-by-step comparison on random histories. '
                    'Model-free oracle: list/dict agreement, back-pointers, snapshots around rejected calls.',
        assumptions=['object identity is modelled by universe indices', 'renames onto an existing key are outside the lookup clause (KeysDistinct)'],
        trusted_base=['Lean 4.33 kernel', 'axioms: propext, Classical.choice, Quot.sound only',
                      'hand-written models PyDBMLModel/Container.lean and PyDBMLModel/TableCont.lean tied by this correspondence'],
        kf_replay=kf_replay, proof_problems=problems)


def replay(path):
    case = json.load(open(path))
    print(json.dumps(case, indent=1)[:3000])
    c = case.get('case', {})
    if c.get('op') == 'thist':
        with Driver() as d:
            m = d.ask({'op': 'thist', 'universe': c['universe'], 'ops': c['ops']})
            print('model', json.dumps(m['steps'][-1]))
        if c.get('seed'):
            r = table_hist_job((c['seed'], 30))
            h = [st for st in r['trace'] if st.get('mop')][:len(c['ops'])]
            print('impl ', json.dumps({'outcome': h[-1]['out'], 'state': h[-1]['mstate']}), 'oracle fails', r['fails'][:3])
    if 'history' in c:
        r = impl_job((0, c['history']))
        print('impl outcomes', [s['outcome'] for s in r['steps']], 'oracle fails', r['fails'])
        with Driver() as d:
            m = d.ask({'op': 'hist', 'universe': lean_universe(UNIVERSE), 'ops': c['history']})
            print('model outcomes', [s['outcome'] for s in m['steps']])
    return 0
