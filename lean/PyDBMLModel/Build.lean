/-
L3b: `PyDBMLParser.build_database` and every `Blueprint.build`, producing the content tree of
`Model.lean` (links as positions) or the exception class the real code raises.
-/
import PyDBMLModel.Grammar
import PyDBMLModel.RenderDbml
namespace PyDBML
namespace Build
open Lex Bp

abbrev B := Except PErr

def liftPy (e : Except PyExc Str) : B Str :=
  match e with
  | .ok s => .ok s
  | .error x => .error (.internal x)

/-- `NoteBlueprint.build()` for an optional blueprint: `Note(None)` has the empty text -/
def buildNote : Option Str → B Str
  | none => pure []
  | some raw => pure (norm raw)

/-! ### numbers: `str(int(s))` and `repr(float(s))` on decimal literals -/

def stripLeadingZeros (s : Str) : Str :=
  match s.dropWhile (· = '0') with
  | [] => ['0']
  | r => r

/-- `repr(float(text))` for a literal `I.F` (digits only) whose value has at most 15 significant
    decimal digits, where the shortest round-tripping representation is the decimal itself:
    positional notation for 1e-4 ≤ x < 1e16, exponent notation otherwise. `none` = outside the model. -/
def floatRepr (text : Str) : Option Str :=
  let ip := text.takeWhile (· ≠ '.')
  let fp := (text.dropWhile (· ≠ '.')).drop 1
  let i := ip.dropWhile (· = '0')                       -- integer digits without leading zeros
  let f := (fp.reverse.dropWhile (· = '0')).reverse      -- fraction digits without trailing zeros
  if i.isEmpty && f.isEmpty then some (PyDBML.lit "0.0")
  else
    let digits := i ++ f
    let sig := (digits.dropWhile (· = '0'))
    let sigT := (sig.reverse.dropWhile (· = '0')).reverse   -- significant digits
    if sigT.length > 15 then none
    else if !i.isEmpty then
      if i.length ≤ 16 then some (i ++ '.' :: (if f.isEmpty then ['0'] else f))
      else
        -- d.ddde+XX
        let e := i.length - 1
        let mant := match sigT with
          | d :: [] => [d]
          | d :: rest => d :: '.' :: rest
          | [] => ['0']
        some (mant ++ PyDBML.lit "e+" ++ natToStr e)
    else
      -- 0.000ddd : exponent = -(leading zeros of f + 1)
      let lz := (f.takeWhile (· = '0')).length
      if lz < 4 then some ('0' :: '.' :: f)
      else
        let e := lz + 1
        let mant := match sigT with
          | d :: [] => [d]
          | d :: rest => d :: '.' :: rest
          | [] => ['0']
        some (mant ++ PyDBML.lit "e-" ++ (if e < 10 then '0' :: natToStr e else natToStr e))

def buildDefault : Option DefaultBp → B (Option DefaultVal)
  | none => pure none
  | some (.str s) => pure (some (.str s))
  | some (.expr t) => pure (some (.expr t))
  | some (.bool b) => pure (some (.bool b))
  | some .null => pure (some (.str (PyDBML.lit "NULL")))
  | some (.int d) => pure (some (.int (stripLeadingZeros d)))
  | some (.float t) =>
    match floatRepr t with
    | some r => pure (some (.float r))
    | none => throw (.outOfModel "float literal with more than 15 significant digits")

/-- `str.split('.')` -/
def splitDot : Str → List Str
  | [] => [[]]
  | c :: r =>
    if c = '.' then [] :: splitDot r
    else match splitDot r with
      | [] => [[c]]
      | l :: ls => (c :: l) :: ls

def splitComma : Str → List Str
  | [] => [[]]
  | c :: r =>
    if c = ',' then [] :: splitComma r
    else match splitComma r with
      | [] => [[c]]
      | l :: ls => (c :: l) :: ls

/-- `(schema, name)` of a type text: `self.type.count('.') == 1` -/
def typeKey (ty : Str) : Str × Str :=
  match splitDot ty with
  | [s, n] => (s, n)
  | _ => (PyDBML.lit "public", ty)

/-- `ColumnBlueprint.build`: type resolution against the enums already in the database -/
def resolveTypePure (enums : List Enum) (ty : Str) : ColType :=
  match enums.findIdx? (fun e => e.schema == (typeKey ty).1 && e.name == (typeKey ty).2) with
  | some i => .enum i
  | none => .plain ty

def resolveType (enums : List Enum) (ty : Str) : B ColType := pure (resolveTypePure enums ty)

def buildColumn (enums : List Enum) (c : ColBp) : B Column := do
  let d ← buildDefault c.default
  let ty ← resolveType enums c.type
  let note ← buildNote c.note
  pure { name := c.name, type := ty, unique := c.unique, notNull := c.notNull, pk := c.pk,
         autoinc := c.autoinc, default := d, note := note, comment := c.comment,
         props := c.props.getD [] }

def buildIndex (cols : List Column) (ix : IdxBp) : B Index := do
  let note ← buildNote ix.note
  let subs ← ix.subjects.mapM fun s =>
    match s with
    | .expr t => pure (Subject.expr t)
    | .name n =>
      match cols.findIdx? (·.name == n) with
      | some i => pure (Subject.col i)
      | none => throw (.lib "ColumnNotFoundError")
  pure { subjects := subs, name := match ix.name with | some [] => none | x => x,
         unique := ix.unique, type := ix.type, pk := ix.pk, note := note, comment := ix.comment }

/-- `TableBlueprint.build` -/
def buildTable (enums : List Enum) (t : TableBp) : B Table := do
  let note ← buildNote t.note
  let cols ← t.columns.mapM (buildColumn enums)
  let idx ← (t.indexes.getD []).mapM (buildIndex cols)
  pure { name := t.name, schema := t.schema, alias := match t.alias with | some [] => none | x => x,
         columns := cols, indexes := idx, note := note, headerColor := t.headerColor,
         comment := t.comment, props := t.props.getD [] }

def noteText : Option Str → Str
  | none => []
  | some raw => norm raw

def buildEnumItem (i : EnumItemBp) : EnumItem :=
  { name := i.name, note := noteText i.note, comment := i.comment }

def buildEnum (e : EnumBp) : B Enum :=
  pure { name := e.name, schema := e.schema, items := e.items.map buildEnumItem, comment := e.comment }

/-- keys of the computed `table_dict` -/
def hasKey (tables : List Table) (key : Str) : Bool :=
  tables.any fun t => t.fullName == key || t.alias == some key

/-- `table_dict.get(key)`: the last insertion wins -/
def findKey (tables : List Table) (key : Str) : Option Nat :=
  let n := tables.length
  ((List.range n).reverse.find? fun i =>
    match tables[i]? with
    | some t => t.fullName == key || t.alias == some key
    | none => false)

/-- `Database.add_table` -/
def addTable (tables : List Table) (t : Table) : B (List Table) :=
  if tables.contains t then throw (.lib "DatabaseValidationError")
  else if hasKey tables t.fullName then throw (.lib "DatabaseValidationError")
  else if (match t.alias with | some a => hasKey tables a | none => false) then
    throw (.lib "DatabaseValidationError")
  else pure (tables ++ [t])

def addEnum (enums : List Enum) (e : Enum) : B (List Enum) :=
  if enums.any (fun x => x.name == e.name && x.schema == e.schema) then
    throw (.lib "DatabaseValidationError")
  else pure (enums ++ [e])

/-- `PyDBMLParser.locate_table`: by alias (any key equal to the bare name) first, then by full name -/
def locateTable (tables : List Table) (schema name : Str) : B Nat :=
  match findKey tables name with
  | some i => pure i
  | none =>
    match findKey tables (fullName schema name) with
    | some i => pure i
    | none => throw (.lib "TableNotFoundError")

def stripParenSpace (s : Str) : Str :=
  stripSet (fun c => c = '(' || c = ')' || c = ' ') s

/-- `[table[col] for col in (c.strip('() ') for c in cols.split(','))]` -/
def locateCols (t : Table) (cols : Str) : B (List Nat) :=
  (splitComma cols).mapM fun c =>
    match t.columns.findIdx? (·.name == stripParenSpace c) with
    | some i => pure i
    | none => throw (.lib "ColumnNotFoundError")

/-- `Reference.__eq__` between a candidate and a member (ignores `inline` and `comment`). -/
def refEq (db : Db) (a b : Ref) : Bool :=
  a.kind == b.kind && a.name == b.name && a.onUpdate == b.onUpdate
    && a.onDelete == b.onDelete
    && a.col1.length == b.col1.length && a.col2.length == b.col2.length
    && (a.col1.zip b.col1).all (fun (x, y) => Dbml.colEq db a.t1 x b.t1 y)
    && (a.col2.zip b.col2).all (fun (x, y) => Dbml.colEq db a.t2 x b.t2 y)

/-- the columns named by `cols` in the table at position `i` -/
def colsAt (tables : List Table) (i : Nat) (cols : Str) : B (List Nat) :=
  match tables[i]? with
  | some t => locateCols t cols
  | none => throw (.outOfModel "table position")

def buildRef (db : Db) (r : RefBp) : B Ref := do
  let some tn1 := r.table1 | throw (.lib "TableNotFoundError")
  let some tn2 := r.table2 | throw (.lib "TableNotFoundError")
  let some cn1 := r.col1 | throw (.lib "ColumnNotFoundError")
  let some cn2 := r.col2 | throw (.lib "ColumnNotFoundError")
  let t1 ← locateTable db.tables r.schema1 tn1
  let c1 ← colsAt db.tables t1 cn1
  let t2 ← locateTable db.tables r.schema2 tn2
  let c2 ← colsAt db.tables t2 cn2
  pure { kind := r.kind, t1 := t1, col1 := c1, t2 := t2, col2 := c2,
         name := match r.name with | some [] => none | x => x,
         comment := r.comment, onUpdate := r.onUpdate, onDelete := r.onDelete, inlineFlag := r.inline }

/-- schema and name of a group item: `components if len(components) == 2 else ('public', components[0])` -/
def groupItemName (tn : Str) : Str × Str :=
  match splitDot tn with
  | [s, n] => (s, n)
  | c :: _ => (PyDBML.lit "public", c)
  | [] => (PyDBML.lit "public", [])

/-- one item of a group body: located, refused when the table is already listed -/
def groupStep (tables : List Table) (acc : List Nat) (tn : Str) : B (List Nat) := do
  let i ← locateTable tables (groupItemName tn).1 (groupItemName tn).2
  if acc.contains i then throw (.lib "ValidationError")
  else pure (acc ++ [i])

/-- `TableGroupBlueprint.build` + `add_table_group` -/
def buildGroup (db : Db) (g : GroupBp) : B Group := do
  let items ← g.items.foldlM (groupStep db.tables) []
  pure { name := g.name, items := items, comment := g.comment, note := g.note.map norm, color := g.color }

/-- the reference blueprints in the order `PyDBMLParser.refs` holds them: a table contributes its
    inline references (column order) at its position, a `Ref` element itself. -/
def refBlueprints (es : List Elem) : List RefBp :=
  es.flatMap fun e =>
    match e with
    | .table t => t.columns.flatMap fun c =>
        c.refs.map fun r => { r with schema1 := t.schema, table1 := some t.name, col1 := some c.name }
    | .ref r => [r]
    | _ => []

def enumBps (es : List Elem) : List EnumBp := es.filterMap fun e => match e with | .enum x => some x | _ => none
def tableBps (es : List Elem) : List TableBp := es.filterMap fun e => match e with | .table x => some x | _ => none
def groupBps (es : List Elem) : List GroupBp := es.filterMap fun e => match e with | .group x => some x | _ => none
def stickyBps (es : List Elem) : List StickyBp := es.filterMap fun e => match e with | .sticky x => some x | _ => none
def projectBp (es : List Elem) : Option ProjectBp :=
  (es.filterMap fun e => match e with | .project x => some x | _ => none).getLast?

def enumStep (acc : List Enum) (e : EnumBp) : B (List Enum) := do addEnum acc (← buildEnum e)
def tableStep (enums : List Enum) (acc : List Table) (t : TableBp) : B (List Table) := do
  addTable acc (← buildTable enums t)
def groupAddStep (db0 : Db) (acc : List Group) (g : GroupBp) : B (List Group) := do
  let gr ← buildGroup db0 g
  if acc.any (·.name == gr.name) then throw (.lib "DatabaseValidationError")
  else pure (acc ++ [gr])
def refStep (db1 : Db) (acc : List Ref) (rb : RefBp) : B (List Ref) := do
  let r ← buildRef db1 rb
  if acc.any (fun m => refEq { db1 with refs := acc } r m) then throw (.lib "DatabaseValidationError")
  else pure (acc ++ [r])
def buildSticky (s : StickyBp) : Sticky := { name := s.name, text := norm s.text }
def buildProject : Option ProjectBp → B (Option Project)
  | some p => do
    let note ← buildNote p.note
    pure (some ({ name := p.name, items := p.items, note := note, comment := p.comment } : Project))
  | none => pure none

/-- `build_database` -/
def buildDatabase (allowProps : Bool) (es : List Elem) : B Db := do
  let enums ← (enumBps es).foldlM enumStep []
  let tables ← (tableBps es).foldlM (tableStep enums) []
  let db0 : Db := { tables := tables, enums := enums, allowProps := allowProps }
  let groups ← (groupBps es).foldlM (groupAddStep db0) []
  let project ← buildProject (projectBp es)
  let db1 : Db := { db0 with groups := groups, sticky := (stickyBps es).map buildSticky, project := project }
  let refs ← (refBlueprints es).foldlM (refStep db1) []
  pure { db1 with refs := refs }

/-- result of `PyDBML(text, allow_properties=…)`: the content, or the error class -/
inductive Outcome where
  | ok (db : Db)
  | syntax              -- ParseException / ParseSyntaxException
  | err (e : PErr)
  deriving Repr, Inhabited

def parse (allowProps : Bool) (text : Str) : Outcome :=
  match Grammar.parseDoc allowProps (removeBom text) with
  | .ok es _ =>
    (match buildDatabase allowProps es with
     | .ok db => .ok db
     | .error e => .err e)
  | .fail => .syntax
  | .fatal => .syntax
  | .exn e => .err e

end Build
end PyDBML
