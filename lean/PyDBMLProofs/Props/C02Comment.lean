/-
C14/C02 — a one-line `//` comment directly above an element: what the renderer writes for it, and that `_c`
(`cBefore`, the comment collector every element rule starts with) reads exactly that comment back.
-/
import PyDBMLProofs.Props.C02Tables
import PyDBMLProofs.Props.C14
namespace PyDBML
namespace C02
open Lex Grammar Build

/-- a comment the round trip covers: one line, beginning with a visible character, without a tab -/
def CommentOK (cm : Str) : Prop := (∃ x xs, cm = x :: xs ∧ isWs x = false) ∧ ∀ c ∈ cm, c ≠ '\n' ∧ c ≠ '\t'

def CmOK : Option Str → Prop
  | none => True
  | some cm => CommentOK cm

/-- the comment line(s) written above an element -/
def commentText : Option Str → Str
  | none => []
  | some cm => '/' :: '/' :: ' ' :: (cm ++ ['\n'])

def cmList : Option Str → List Str
  | none => []
  | some cm => [cm]

theorem joinBefore_cmList (cm : Option Str) : joinBefore (cmList cm) = cm := by
  cases cm <;> simp [joinBefore, cmList, joinNL]

/-- `comment_to_dbml` on such a comment -/
theorem optComment_eq (cm : Option Str) (h : CmOK cm) : Dbml.optComment cm = commentText cm := by
  cases cm with
  | none => rfl
  | some c =>
    obtain ⟨⟨x, xs, rfl, _⟩, hall⟩ := h
    have hnl : '\n' ∉ (x :: xs) := fun hm => (hall _ hm).1 rfl
    simp only [Dbml.optComment, commentToDbml, commentLines, C14.splitNL_no_nl_self _ hnl, List.map_cons, List.map_nil, joinNL,
      commentText, lit]
    simp

theorem commentText_no_tab (cm : Option Str) (h : CmOK cm) : ∀ c ∈ commentText cm, c ≠ '\t' := by
  cases cm with
  | none => intro c hc; simp [commentText] at hc
  | some s =>
    intro c hc
    have e : commentText (some s) = ['/', '/', ' '] ++ s ++ ['\n'] := by simp [commentText]
    rw [e] at hc
    simp only [List.mem_append] at hc
    rcases hc with (hc | hc) | hc
    · exact (by decide : ∀ c ∈ ['/', '/', ' '], c ≠ '\t') c hc
    · exact (h.2 c hc).2
    · exact (by decide : ∀ c ∈ ['\n'], c ≠ '\t') c hc

/-- `comment` on `// text` + LF -/
theorem comment_line_ok (c : Cur) (cm r : Str) (hn : (skipWs c).rest = '/' :: '/' :: ' ' :: (cm ++ '\n' :: r))
    (hp : c.pastEnd = false) (hcm : CommentOK cm) :
    ∃ c', comment c = .ok cm c' ∧ c'.rest = '\n' :: r ∧ c'.pastEnd = false ∧ c'.rest.length < c.rest.length := by
  obtain ⟨⟨x, xs, hx, hxw⟩, hall⟩ := hcm
  have h2 : (advance (skipWs c) 2).rest = ' ' :: (cm ++ '\n' :: r) := by rw [C13.advance_rest, hn]; rfl
  have h3 : (skipWs (advance (skipWs c) 2)).rest = cm ++ '\n' :: r := by
    have := skipWs_rest_spaces (advance (skipWs c) 2) 1 x (xs ++ '\n' :: r) (by rw [h2, hx]; rfl) hxw
    rw [this, hx]; rfl
  have htw : (cm ++ '\n' :: r).takeWhile (fun y => decide (y ≠ '\n')) = cm :=
    takeWhile_append_stop _ cm ('\n' :: r) (by
      rw [List.all_eq_true]; intro y hy; simpa using (hall y hy).1) (by intro y hy; simp at hy; subst hy; simp)
  have hpe : (skipWs (advance (skipWs c) 2)).pastEnd = false := by
    rw [skipWs_pastEnd, C13.advance_pastEnd, skipWs_pastEnd]; exact hp
  have hlen : (skipWs c).rest.length ≤ c.rest.length := skipWs_len c
  refine ⟨advance (skipWs (advance (skipWs c) 2)) cm.length, ?_, ?_, ?_, ?_⟩
  · unfold comment
    simp only [skipWs_pastEnd, hp, Bool.false_eq_true, ↓reduceIte, hn, h3, htw]
  · rw [C13.advance_rest, h3]; simp
  · rw [C13.advance_pastEnd]; exact hpe
  · rw [C13.advance_rest, h3]
    rw [hn] at hlen
    simp only [List.drop_left', List.length_cons, List.length_append] at hlen ⊢
    omega

/-! ### `_c` over a line break and a comment line -/

/-- the body `_c` repeats: a line break (nothing kept) or a comment (its text kept) -/
def cbBody : P (Option Str) :=
  alt (do sym "\n"; pure (none : Option Str)) (do let t ← comment; pure (some t))

theorem cBefore_of_many (c c' : Cur) (xs : List (Option Str)) (h : many cbBody (c.rest.length + 2) c = .ok xs c') :
    cBefore c = .ok (xs.filterMap id) c' := by
  unfold cBefore manyF fuelOf
  unfold cbBody at h
  simp only [bind, pbind] at h ⊢
  rw [h]
  rfl

theorem cbBody_nl (c c1 : Cur) (h : sym "\n" c = .ok () c1) : cbBody c = .ok none c1 := by
  unfold cbBody alt; simp only [bind, pbind, h, pure, ppure]

theorem cbBody_comment (c c1 : Cur) (t : Str) (h1 : sym "\n" c = .fail) (h2 : comment c = .ok t c1) :
    cbBody c = .ok (some t) c1 := by
  unfold cbBody alt; simp only [bind, pbind, h1, h2, pure, ppure]

theorem cbBody_fail (c : Cur) (h1 : sym "\n" c = .fail) (h2 : comment c = .fail) : cbBody c = .fail := by
  unfold cbBody alt; simp only [bind, pbind, h1, h2]

theorem many_cons {α} (p : P α) (f : Nat) (c c1 c2 : Cur) (a : α) (as : List α)
    (h1 : p c = .ok a c1) (hlen : c1.rest.length ≠ c.rest.length) (h2 : many p f c1 = .ok as c2) :
    many p (f + 1) c = .ok (a :: as) c2 := by
  rw [many]; simp only [h1, hlen, decide_false, Bool.false_and, Bool.false_eq_true, ↓reduceIte, h2]

theorem many_stop {α} (p : P α) (f : Nat) (c : Cur) (h : p c = .fail) : many p (f + 1) c = .ok [] c := by
  rw [many]; simp [h]

/-- `sym "\n"` right at a line break: the cursor stands after it and remembers it -/
theorem sym_nl_here (c : Cur) (r : Str) (hc : c.rest = '\n' :: r) (hp : c.pastEnd = false) :
    sym "\n" c = .ok () (advance c 1) ∧ (advance c 1).rest = r ∧ (advance c 1).pastEnd = false
      ∧ (advance c 1).prev = some '\n' := by
  have hsk : skipWs c = c := skipWs_eq_of_head c '\n' r hc (by decide)
  refine ⟨?_, by rw [C13.advance_rest, hc]; rfl, by rw [C13.advance_pastEnd]; exact hp, advance_one_prev c '\n' r hc⟩
  unfold sym litRaw
  simp [hsk, hc, hp, startsWith]

/-- from the comment line on: the comment is kept, the line break after it is passed, and `_c` stops at the element -/
theorem many_comment_line (cm : Str) (x : Char) (xr : Str) (hxw : isWs x = false) (hx1 : x ≠ '\n') (hx2 : x ≠ '/')
    (hcm : CommentOK cm) (f : Nat) (c : Cur) (hc : c.rest = '/' :: '/' :: ' ' :: (cm ++ '\n' :: x :: xr))
    (hp : c.pastEnd = false) :
    ∃ c0, many cbBody (f + 3) c = .ok [some cm, none] c0 ∧ c0.rest = x :: xr ∧ c0.pastEnd = false ∧ c0.prev = some '\n' := by
  have hN : Next c '/' ('/' :: ' ' :: (cm ++ '\n' :: x :: xr)) := skipWs_rest_head c '/' _ hc (by decide)
  have hs0 : sym "\n" c = .fail := sym_fail "\n" c '/' _ hN (by simp [startsWith])
  obtain ⟨c1, hcomm, hr1, hp1, hl1⟩ := comment_line_ok c cm (x :: xr) hN hp hcm
  obtain ⟨hs1, hr2, hp2, hpv2⟩ := sym_nl_here c1 (x :: xr) hr1 hp1
  have hN2 : Next (advance c1 1) x xr := skipWs_rest_head _ x xr hr2 hxw
  obtain ⟨q1, q2⟩ := quiet_of_next (advance c1 1) x xr hN2 hx1 hx2
  refine ⟨advance c1 1, ?_, hr2, hp2, hpv2⟩
  refine many_cons cbBody (f + 2) c c1 _ (some cm) [none] (cbBody_comment c c1 cm hs0 hcomm) (by omega) ?_
  refine many_cons cbBody (f + 1) c1 (advance c1 1) _ none [] (cbBody_nl c1 _ hs1) (by rw [hr2, hr1]; simp) ?_
  exact many_stop cbBody f _ (cbBody_fail _ q1 q2)

/-- `_c` at the very start of the text or right after an element: an optional comment line, then the element -/
theorem cBefore_comment (c : Cur) (cm : Option Str) (x : Char) (xr : Str) (hxw : isWs x = false) (hx1 : x ≠ '\n')
    (hx2 : x ≠ '/') (hc : c.rest = commentText cm ++ x :: xr) (hp : c.pastEnd = false) (hcm : CmOK cm)
    (hprev : ∀ p, c.prev = some p → isKwIdent p = false) :
    ∃ c0, cBefore c = .ok (cmList cm) c0 ∧ c0.rest = x :: xr ∧ c0.pastEnd = false
      ∧ ∀ p, c0.prev = some p → isKwIdent p = false := by
  cases cm with
  | none =>
    have hc' : c.rest = x :: xr := by simpa [commentText] using hc
    have hN : Next c x xr := skipWs_rest_head c x xr hc' hxw
    obtain ⟨q1, q2⟩ := quiet_of_next c x xr hN hx1 hx2
    exact ⟨c, cBefore_stay c q1 q2, hc', hp, hprev⟩
  | some s =>
    have hc' : c.rest = '/' :: '/' :: ' ' :: (s ++ '\n' :: x :: xr) := by simpa [commentText] using hc
    obtain ⟨c0, hm, hr0, hp0, hpv0⟩ := many_comment_line s x xr hxw hx1 hx2 hcm (c.rest.length - 1) c hc' hp
    have hf : c.rest.length - 1 + 3 = c.rest.length + 2 := by rw [hc']; simp
    rw [hf] at hm
    refine ⟨c0, ?_, hr0, hp0, by intro p hpp; rw [hpv0] at hpp; cases hpp; decide⟩
    have := cBefore_of_many c c0 _ hm
    simpa [cmList] using this

/-- `_c` after the end rule of the previous element consumed one line break: a second line break, an optional
    comment line, then the element -/
theorem cBefore_nl_comment (c : Cur) (cm : Option Str) (x : Char) (xr : Str) (hxw : isWs x = false) (hx1 : x ≠ '\n')
    (hx2 : x ≠ '/') (hc : c.rest = '\n' :: (commentText cm ++ x :: xr)) (hp : c.pastEnd = false) (hcm : CmOK cm) :
    ∃ c0, cBefore c = .ok (cmList cm) c0 ∧ c0.rest = x :: xr ∧ c0.pastEnd = false
      ∧ ∀ p, c0.prev = some p → isKwIdent p = false := by
  obtain ⟨hs, hr1, hp1, hpv1⟩ := sym_nl_here c _ hc hp
  cases cm with
  | none =>
    have hr1' : (advance c 1).rest = x :: xr := by simpa [commentText] using hr1
    have hN : Next (advance c 1) x xr := skipWs_rest_head _ x xr hr1' hxw
    obtain ⟨q1, q2⟩ := quiet_of_next (advance c 1) x xr hN hx1 hx2
    refine ⟨advance c 1, ?_, hr1', hp1, by intro p hpp; rw [hpv1] at hpp; cases hpp; decide⟩
    have hm : many cbBody (c.rest.length + 2) c = .ok [none] (advance c 1) :=
      many_cons cbBody (c.rest.length + 1) c (advance c 1) _ none [] (cbBody_nl c _ hs) (by rw [hr1', hc]; simp [commentText])
        (many_stop cbBody c.rest.length _ (cbBody_fail _ q1 q2))
    have := cBefore_of_many c _ _ hm
    simpa [cmList] using this
  | some s =>
    have hr1' : (advance c 1).rest = '/' :: '/' :: ' ' :: (s ++ '\n' :: x :: xr) := by simpa [commentText] using hr1
    obtain ⟨c0, hm, hr0, hp0, hpv0⟩ := many_comment_line s x xr hxw hx1 hx2 hcm (c.rest.length - 2) (advance c 1) hr1' hp1
    refine ⟨c0, ?_, hr0, hp0, by intro p hpp; rw [hpv0] at hpp; cases hpp; decide⟩
    have hf : c.rest.length + 2 = (c.rest.length - 2 + 3) + 1 := by rw [hc]; simp [commentText]
    have hm2 : many cbBody (c.rest.length + 2) c = .ok (none :: [some s, none]) c0 := by
      rw [hf]
      exact many_cons cbBody _ c (advance c 1) c0 none _ (cbBody_nl c _ hs) (by rw [hr1', hc]; simp [commentText]) hm
    have := cBefore_of_many c _ _ hm2
    simpa [cmList] using this

end C02
end PyDBML
