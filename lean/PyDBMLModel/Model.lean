/-
L2 (value level): the content of a `Database` as an id-free value tree.
Cross-object links are positions: a reference endpoint is (table position in `db.tables`, column
positions in that table), an enum-typed column holds the enum's position in `db.enums`, an index
subject that is a `Column` object holds the column's position in the owning table, a group item
holds a table position.  This is what `harness/observe.py` reads off live Python objects with `is`.
-/
import PyDBMLModel.Text
namespace PyDBML

/-- Python truthiness of an optional string attribute (`None` and `''` are falsy). -/
def truthy : Option Str → Bool
  | some (_ :: _) => true
  | _ => false

inductive DefaultVal where
  | int (repr : Str)      -- Python `int`, as `str(v)`
  | float (repr : Str)    -- Python `float`, as `repr(v)` (float formatting is outside the model)
  | bool (b : Bool)
  | str (s : Str)
  | expr (text : Str)     -- `Expression(text)`
  deriving Repr, DecidableEq, Inhabited

/-- `bool(default)` as used by the DBML renderer's `if model.default:`. -/
def DefaultVal.truthy : DefaultVal → Bool
  | .int r => r != ['0']
  | .float r => r != lit "0.0" && r != lit "-0.0"
  | .bool b => b
  | .str s => !s.isEmpty
  | .expr _ => true

inductive ColType where
  | plain (s : Str)
  | enum (idx : Nat)      -- position in `db.enums`
  | enumDetached (schema name : Str)  -- an `Enum` object that is not in `db.enums`
  deriving Repr, DecidableEq, Inhabited

structure Column where
  name : Str
  type : ColType
  unique : Bool := false
  notNull : Bool := false
  pk : Bool := false
  autoinc : Bool := false
  default : Option DefaultVal := none
  note : Str := []
  comment : Option Str := none
  props : List (Str × Str) := []
  deriving Repr, DecidableEq, Inhabited

inductive Subject where
  | col (idx : Nat)       -- a `Column` of the owning table
  | expr (text : Str)
  | raw (s : Str)         -- a plain `str` subject (API only)
  deriving Repr, DecidableEq, Inhabited

structure Index where
  subjects : List Subject
  name : Option Str := none
  unique : Bool := false
  type : Option Str := none
  pk : Bool := false
  note : Str := []
  comment : Option Str := none
  deriving Repr, DecidableEq, Inhabited

structure Table where
  name : Str
  schema : Str := lit "public"
  alias : Option Str := none
  columns : List Column := []
  indexes : List Index := []
  note : Str := []
  headerColor : Option Str := none
  comment : Option Str := none
  abstract : Bool := false
  props : List (Str × Str) := []
  deriving Repr, DecidableEq, Inhabited

inductive RefKind where
  | manyToOne   -- `>`
  | oneToMany   -- `<`
  | oneToOne    -- `-`
  | manyToMany  -- `<>`
  deriving Repr, DecidableEq, Inhabited

def RefKind.sym : RefKind → Str
  | .manyToOne => ['>'] | .oneToMany => ['<'] | .oneToOne => ['-'] | .manyToMany => ['<', '>']

structure Ref where
  kind : RefKind
  t1 : Nat
  col1 : List Nat
  t2 : Nat
  col2 : List Nat
  name : Option Str := none
  comment : Option Str := none
  onUpdate : Option Str := none
  onDelete : Option Str := none
  inlineFlag : Bool := false      -- `_inline`
  deriving Repr, DecidableEq, Inhabited

/-- `Reference.inline`. -/
def Ref.inline (r : Ref) : Bool := r.inlineFlag && r.kind != .manyToMany

structure EnumItem where
  name : Str
  note : Str := []
  comment : Option Str := none
  deriving Repr, DecidableEq, Inhabited

structure Enum where
  name : Str
  schema : Str := lit "public"
  items : List EnumItem := []
  comment : Option Str := none
  deriving Repr, DecidableEq, Inhabited

structure Group where
  name : Str
  items : List Nat := []
  comment : Option Str := none
  note : Option Str := none        -- `TableGroup.note` may be `None`
  color : Option Str := none
  deriving Repr, DecidableEq, Inhabited

structure Sticky where
  name : Str
  text : Str
  deriving Repr, DecidableEq, Inhabited

structure Project where
  name : Str
  items : List (Str × Str) := []
  note : Str := []
  comment : Option Str := none
  deriving Repr, DecidableEq, Inhabited

structure Db where
  tables : List Table := []
  refs : List Ref := []
  enums : List Enum := []
  groups : List Group := []
  sticky : List Sticky := []
  project : Option Project := none
  allowProps : Bool := false
  deriving Repr, DecidableEq, Inhabited

def fullName (schema name : Str) : Str := schema ++ '.' :: name
def Table.fullName (t : Table) : Str := PyDBML.fullName t.schema t.name

/-- `get_full_name_for_sql` / `get_full_name_for_dbml` (identical text). -/
def qualName (schema name : Str) : Str :=
  if schema = lit "public" then '"' :: name ++ ['"']
  else '"' :: schema ++ lit "\".\"" ++ name ++ ['"']

/-- Errors a rendering can end in. -/
inductive RenderErr where
  | lib (name : String)           -- one of pydbml.exceptions
  | internal (e : PyExc)          -- anything else Python would raise (C08)
  | outOfModel (why : String)     -- the graph is outside what the value model represents
  deriving Repr, DecidableEq, Inhabited

abbrev R := Except RenderErr

def getD? {α} (l : List α) (i : Nat) (why : String) : R α :=
  match l[i]? with
  | some a => .ok a
  | none => .error (.outOfModel why)

end PyDBML
