/-
The fuel of `many` never decides.  pyparsing's `ZeroOrMore` has no bound; the model gives `many` a fuel of
`rest.length + 2` (`manyF`).  Here: every parser of the grammar only moves forward (`Adv`), a successful
iteration that `many` continues after strictly decreases a measure bounded by `rest.length + 1`, hence any
two amounts of fuel above that measure give the same result (`many_fuel_irrelevant`, `manyF_any_fuel`):
the bound is a device for Lean's termination checker, not a behaviour of the model.
-/
import PyDBMLProofs.Props.C07
namespace PyDBML
namespace Fuel
open Lex Grammar

/-- the cursor only moves forward -/
def Mono (c c' : Cur) : Prop := c'.rest <:+ c.rest ∧ (c.pastEnd = true → c'.pastEnd = true)

theorem Mono.refl (c : Cur) : Mono c c := ⟨List.suffix_refl _, id⟩

theorem Mono.trans {a b c : Cur} (h1 : Mono a b) (h2 : Mono b c) : Mono a c :=
  ⟨h2.1.trans h1.1, fun h => h2.2 (h1.2 h)⟩

theorem mono_skipWs (c : Cur) : Mono c (skipWs c) := ⟨C07.skipWs_suffix c, fun h => h⟩

theorem advance_pastEnd' (c : Cur) (n : Nat) : (advance c n).pastEnd = c.pastEnd := by
  induction n generalizing c with
  | zero => rfl
  | succ n ih =>
    unfold advance
    cases h : c.rest with
    | nil => simp
    | cons x r => simp only; rw [ih]

theorem mono_advance (c : Cur) (n : Nat) : Mono c (advance c n) :=
  ⟨C07.advance_suffix c n, fun h => by rw [advance_pastEnd']; exact h⟩

theorem mono_skip_advance (c : Cur) (n : Nat) : Mono c (advance (skipWs c) n) :=
  (mono_skipWs c).trans (mono_advance _ n)

theorem mono_curAfter (c : Cur) (r : Str) : Mono c (curAfter c r) := mono_advance c _

theorem mono_skip_curAfter (c : Cur) (r : Str) : Mono c (curAfter (skipWs c) r) :=
  (mono_skipWs c).trans (mono_curAfter _ r)

class Adv {α : Type} (p : P α) : Prop where
  out : ∀ c a c', p c = .ok a c' → Mono c c'

variable {α β : Type}

instance adv_pure (a : α) : Adv (pure a : P α) :=
  ⟨by intro c b c' h; simp only [pure, ppure, Res.ok.injEq] at h; rw [← h.2]; exact Mono.refl c⟩
instance adv_ppure (a : α) : Adv (ppure a : P α) :=
  ⟨by intro c b c' h; simp only [ppure, Res.ok.injEq] at h; rw [← h.2]; exact Mono.refl c⟩
instance adv_pfail : Adv (pfail : P α) := ⟨by intro c b c' h; cases h⟩
instance adv_pexn (e : PErr) : Adv (pexn e : P α) := ⟨by intro c b c' h; cases h⟩

theorem adv_bind (p : P α) (f : α → P β) (hp : Adv p) (hf : ∀ a, Adv (f a)) : Adv (p >>= f) := by
  constructor
  intro c b c' h
  simp only [bind, pbind] at h
  cases hpc : p c with
  | ok a c1 => rw [hpc] at h; exact (hp.out _ _ _ hpc).trans ((hf a).out _ _ _ h)
  | fail => rw [hpc] at h; cases h
  | fatal => rw [hpc] at h; cases h
  | exn e => rw [hpc] at h; cases h

instance adv_bind_inst (p : P α) (f : α → P β) [hp : Adv p] [hf : ∀ a, Adv (f a)] : Adv (p >>= f) :=
  adv_bind p f hp hf

theorem adv_alt (p q : P α) (hp : Adv p) (hq : Adv q) : Adv (alt p q) := by
  constructor
  intro c b c' h
  simp only [alt] at h
  cases hpc : p c with
  | ok a c1 => rw [hpc] at h; simp only [Res.ok.injEq] at h; rw [← h.2]; exact hp.out _ _ _ hpc
  | fail => rw [hpc] at h; exact hq.out _ _ _ h
  | fatal => rw [hpc] at h; cases h
  | exn e => rw [hpc] at h; cases h

instance adv_alt_inst (p q : P α) [hp : Adv p] [hq : Adv q] : Adv (alt p q) := adv_alt p q hp hq

theorem adv_cut (p : P α) (hp : Adv p) : Adv (cut p) := by
  constructor
  intro c b c' h
  simp only [cut] at h
  cases hpc : p c with
  | ok a c1 => rw [hpc] at h; simp only [Res.ok.injEq] at h; rw [← h.2]; exact hp.out _ _ _ hpc
  | fail => rw [hpc] at h; cases h
  | fatal => rw [hpc] at h; cases h
  | exn e => rw [hpc] at h; cases h

instance adv_cut_inst (p : P α) [hp : Adv p] : Adv (cut p) := adv_cut p hp

theorem adv_opt (p : P α) (hp : Adv p) : Adv (opt p) := by
  constructor
  intro c b c' h
  simp only [opt] at h
  cases hpc : p c with
  | ok a c1 => rw [hpc] at h; simp only [Res.ok.injEq] at h; rw [← h.2]; exact hp.out _ _ _ hpc
  | fail => rw [hpc] at h; simp only [Res.ok.injEq] at h; rw [← h.2]; exact Mono.refl c
  | fatal => rw [hpc] at h; cases h
  | exn e => rw [hpc] at h; cases h

instance adv_opt_inst (p : P α) [hp : Adv p] : Adv (opt p) := adv_opt p hp

theorem adv_many (p : P α) (hp : Adv p) (n : Nat) : Adv (many p n) := by
  constructor
  induction n with
  | zero => intro c b c' h; simp only [many, Res.ok.injEq] at h; rw [← h.2]; exact Mono.refl c
  | succ n ih =>
    intro c b c' h
    simp only [many] at h
    cases hpc : p c with
    | ok a c1 =>
      rw [hpc] at h
      simp only at h
      have h1 := hp.out _ _ _ hpc
      split at h
      · simp only [Res.ok.injEq] at h; rw [← h.2]; exact h1
      · cases hm : many p n c1 with
        | ok as c2 => rw [hm] at h; simp only [Res.ok.injEq] at h; rw [← h.2]; exact h1.trans (ih _ _ _ hm)
        | fail => rw [hm] at h; simp only [Res.ok.injEq] at h; rw [← h.2]; exact h1
        | fatal => rw [hm] at h; cases h
        | exn e => rw [hm] at h; cases h
    | fail => rw [hpc] at h; simp only [Res.ok.injEq] at h; rw [← h.2]; exact Mono.refl c
    | fatal => rw [hpc] at h; cases h
    | exn e => rw [hpc] at h; cases h

instance adv_many_inst (p : P α) [hp : Adv p] (n : Nat) : Adv (many p n) := adv_many p hp n

theorem adv_manyF (p : P α) (hp : Adv p) : Adv (manyF p) :=
  ⟨fun c b c' h => (adv_many p hp (fuelOf c)).out c b c' h⟩

instance adv_manyF_inst (p : P α) [hp : Adv p] : Adv (manyF p) := adv_manyF p hp

instance adv_many1_inst (p : P α) [hp : Adv p] : Adv (many1 p) := by unfold many1; infer_instance

theorem adv_orLongest (p q : P α) (hp : Adv p) (hq : Adv q) : Adv (orLongest p q) := by
  constructor
  intro c b c' h
  simp only [orLongest] at h
  cases hpc : p c <;> cases hqc : q c <;> rw [hpc, hqc] at h <;> simp only at h <;>
    first
    | (simp only [Res.ok.injEq] at h; rw [← h.2]; first | exact hp.out _ _ _ hpc | exact hq.out _ _ _ hqc)
    | (split at h <;> simp only [Res.ok.injEq] at h <;> rw [← h.2] <;> first | exact hp.out _ _ _ hpc | exact hq.out _ _ _ hqc)
    | cases h

instance adv_orLongest_inst (p q : P α) [hp : Adv p] [hq : Adv q] : Adv (orLongest p q) := adv_orLongest p q hp hq

theorem adv_skipWs (p : P α) (hp : Adv p) : Adv (fun c => p (skipWs c)) :=
  ⟨fun c b c' h => (mono_skipWs c).trans (hp.out _ _ _ h)⟩

instance adv_skipWs_inst (p : P α) [hp : Adv p] : Adv (fun c => p (skipWs c)) := adv_skipWs p hp

instance adv_ite (b : Prop) [Decidable b] (p q : P α) [hp : Adv p] [hq : Adv q] : Adv (if b then p else q) := by
  split <;> assumption

/-! ### primitives -/

macro "adv_prim" : tactic =>
  `(tactic| (constructor; intro c a c' h; (try dsimp only at h); (repeat' split at h) <;>
      first
      | (cases h; done)
      | (cases h;
         first
         | exact Mono.refl _
         | exact mono_skipWs _
         | exact mono_advance _ _
         | exact mono_skip_advance _ _
         | exact mono_curAfter _ _
         | exact mono_skip_curAfter _ _
         | exact ⟨(C07.skipWs_suffix _), fun _ => rfl⟩)))

instance (s : Str) : Adv (litRaw s) := by unfold litRaw; adv_prim
instance (s : String) : Adv (sym s) := by unfold sym litRaw; adv_prim
instance (s : String) : Adv (clit s) := by unfold clit; adv_prim
instance (s : String) : Adv (ckw s) := by unfold ckw; adv_prim
instance (p : Char → Bool) : Adv (wordRaw p) := by unfold wordRaw; adv_prim
instance (p : Char → Bool) : Adv (word p) := by unfold word wordRaw; adv_prim
instance : Adv stringEnd := by unfold stringEnd; adv_prim
instance : Adv wordStart := by unfold wordStart; adv_prim
instance : Adv wordEnd := by unfold wordEnd; adv_prim
instance : Adv name := by unfold name; adv_prim
instance : Adv stringLiteral := by unfold stringLiteral; adv_prim
instance : Adv expressionLiteral := by unfold expressionLiteral; adv_prim
instance : Adv numberLiteral := by unfold numberLiteral; adv_prim
instance : Adv relation := by unfold relation; adv_prim
instance : Adv hexColor := by unfold hexColor; adv_prim
instance : Adv white := by unfold white; adv_prim

instance : Adv lineEnd := by
  constructor
  intro c a c' h
  unfold lineEnd at h
  dsimp only at h
  split at h
  · cases h
  · split at h
    · rename_i r heq
      cases h
      refine ⟨?_, fun hp => hp⟩
      have := C07.skipWs_suffix c
      rw [heq] at this
      exact (List.suffix_cons _ _).trans this
    · cases h
      exact ⟨C07.skipWs_suffix _, fun _ => rfl⟩
    · cases h

instance : Adv comment := by
  constructor
  intro c a c' h
  unfold comment at h
  dsimp only at h
  split at h
  · cases h
  · split at h
    · cases h
      exact (mono_skipWs c).trans ((mono_advance _ 2).trans ((mono_skipWs _).trans (mono_advance _ _)))
    · split at h
      · cases h
        exact (mono_skipWs c).trans ((mono_advance _ 2).trans ((mono_skipWs _).trans (mono_curAfter _ _)))
      · cases h
    · cases h

/-! ### the measure and fuel irrelevance -/

/-- what a successful iteration that `many` continues after must decrease -/
def mu (c : Cur) : Nat := c.rest.length + (if c.pastEnd then 0 else 1)

theorem mono_mu {c c' : Cur} (h : Mono c c') : mu c' ≤ mu c := by
  unfold mu
  have hl : c'.rest.length ≤ c.rest.length := h.1.length_le
  cases hp : c.pastEnd <;> cases hp' : c'.pastEnd <;> simp
  · omega
  · omega
  · have := h.2 hp; rw [hp'] at this; cases this
  · omega

/-- `many` goes on only after progress, and progress strictly decreases the measure -/
theorem progress_mu {c c' : Cur} (h : Mono c c')
    (hprog : (c'.rest.length = c.rest.length && c'.pastEnd = c.pastEnd) = false) : mu c' < mu c := by
  unfold mu
  have hl : c'.rest.length ≤ c.rest.length := h.1.length_le
  cases hp : c.pastEnd <;> cases hp' : c'.pastEnd <;> simp [hp, hp'] at hprog ⊢
  · omega
  · omega
  · have := h.2 hp; rw [hp'] at this; cases this
  · omega

/-- **the fuel never decides**: with any two amounts of fuel above the measure `many` gives the same result -/
theorem many_fuel_irrelevant (p : P α) [hp : Adv p] :
    ∀ (n m : Nat) (c : Cur), mu c < n → mu c < m → many p n c = many p m c := by
  intro n
  induction n with
  | zero => intro m c h; omega
  | succ k ih =>
    intro m c hn hm
    obtain ⟨j, rfl⟩ : ∃ j, m = j + 1 := ⟨m - 1, by omega⟩
    simp only [many]
    cases hpc : p c with
    | ok a c1 =>
      simp only
      have hmono := hp.out _ _ _ hpc
      by_cases hprog : (c1.rest.length = c.rest.length && c1.pastEnd = c.pastEnd) = true
      · simp only [hprog, ↓reduceIte]
      · have hprog' : (c1.rest.length = c.rest.length && c1.pastEnd = c.pastEnd) = false := by simpa using hprog
        have hlt := progress_mu hmono hprog'
        simp only [hprog', Bool.false_eq_true, ↓reduceIte]
        rw [ih j c1 (by omega) (by omega)]
    | fail => rfl
    | fatal => rfl
    | exn e => rfl

theorem mu_lt_fuelOf (c : Cur) : mu c < fuelOf c := by
  unfold mu fuelOf; split <;> omega

/-- `manyF` is `many` with any sufficient fuel -/
theorem manyF_any_fuel (p : P α) [Adv p] (c : Cur) (n : Nat) (h : mu c < n) : manyF p c = many p n c :=
  many_fuel_irrelevant p (fuelOf c) n c (mu_lt_fuelOf c) h

/-! ### every rule of the grammar only moves forward -/

macro "adv_tac" : tactic => `(tactic| repeat' (first
  | infer_instance
  | apply adv_bind
  | apply adv_cut
  | apply adv_alt
  | apply adv_opt
  | apply adv_manyF
  | apply adv_orLongest
  | apply adv_skipWs
  | intro _
  | split))

instance : Adv skipNl := by unfold skipNl; adv_tac
instance : Adv cBefore := by unfold cBefore; adv_tac
instance : Adv cOpt := by unfold cOpt; adv_tac
instance : Adv endRule := by unfold endRule; adv_tac
instance : Adv noteRule := by unfold noteRule; adv_tac
instance : Adv noteObject := by unfold noteObject; adv_tac
instance : Adv noteElement := by unfold noteElement; adv_tac

theorem adv_expr (fuel : Nat) : Adv (factor fuel) ∧ Adv (expression fuel) := by
  induction fuel with
  | zero => exact ⟨by unfold factor; infer_instance, by unfold expression; infer_instance⟩
  | succ n ih =>
    have hf : Adv (factor (n + 1)) := by
      have := ih.2
      unfold factor; adv_tac
    refine ⟨hf, ?_⟩
    constructor
    intro c a c' h
    unfold expression at h
    cases hm : many (factor n) (fuelOf c) c with
    | ok as c2 =>
      rw [hm] at h; simp only [Res.ok.injEq] at h; rw [← h.2]
      exact (adv_many (factor n) ih.1 _).out _ _ _ hm
    | fail => rw [hm] at h; cases h
    | fatal => rw [hm] at h; cases h
    | exn e => rw [hm] at h; cases h

instance (fuel : Nat) : Adv (factor fuel) := (adv_expr fuel).1
instance (fuel : Nat) : Adv (expression fuel) := (adv_expr fuel).2

instance : Adv typeArgs := by
  constructor
  intro c a c' h
  unfold typeArgs at h
  cases h1 : litRaw ['('] c with
  | ok u c1 =>
    rw [h1] at h; simp only at h
    cases h2 : expression (fuelOf c1) c1 with
    | ok u2 c2 =>
      rw [h2] at h; simp only at h
      cases h3 : litRaw [')'] c2 with
      | ok u3 c3 =>
        rw [h3] at h; simp only [Res.ok.injEq] at h; rw [← h.2]
        exact ((Adv.out _ _ _ h1).trans (Adv.out _ _ _ h2)).trans (Adv.out _ _ _ h3)
      | fail => rw [h3] at h; cases h
      | fatal => rw [h3] at h; cases h
      | exn e => rw [h3] at h; cases h
    | fail => rw [h2] at h; cases h
    | fatal => rw [h2] at h; cases h
    | exn e => rw [h2] at h; cases h
  | fail => rw [h1] at h; cases h
  | fatal => rw [h1] at h; cases h
  | exn e => rw [h1] at h; cases h

instance : Adv nameRaw := by
  constructor
  intro c a c' h
  unfold nameRaw at h
  split at h
  · split at h
    · cases h
    · exact Adv.out _ _ _ h
  · cases h

instance : Adv whites := by
  constructor
  intro c a c' h
  unfold whites at h
  dsimp only at h
  split at h
  · cases h; exact Mono.refl _
  · cases h; exact mono_advance _ _

instance : Adv columnType := by unfold columnType; adv_tac
instance : Adv colName := by unfold colName; adv_tac
instance : Adv refInline := by unfold refInline; adv_tac
instance : Adv onOption := by unfold onOption; adv_tac
instance : Adv refSetting := by unfold refSetting; adv_tac
instance : Adv refSettings := by unfold refSettings; adv_tac
instance : Adv compositeName := by unfold compositeName; adv_tac
instance : Adv nameOrComposite := by unfold nameOrComposite; adv_tac
instance : Adv refCols := by unfold refCols; adv_tac
instance (nm : Option Str) (before : List Str) : Adv (refBody nm before) := by unfold refBody; adv_tac
instance : Adv refShort := by unfold refShort; adv_tac
instance : Adv refLong := by unfold refLong; adv_tac
instance : Adv refRule := by unfold refRule; adv_tac
instance : Adv booleanLiteral := by unfold booleanLiteral; adv_tac
instance (t : Str) : Adv (numberValue t) := by unfold numberValue; adv_tac
instance : Adv defaultRule := by unfold defaultRule; adv_tac
instance : Adv prop := by unfold prop; adv_tac
instance : Adv columnSetting := by unfold columnSetting; adv_tac
instance : Adv columnSettingWithProperty := by unfold columnSettingWithProperty; adv_tac
instance : Adv columnSettings := by unfold columnSettings; adv_tac
instance : Adv columnSettingsWithProperties := by unfold columnSettingsWithProperties; adv_tac
instance (props : Bool) : Adv (tableColumn props) := by unfold tableColumn; adv_tac
instance : Adv indexType := by unfold indexType; adv_tac
instance : Adv indexSetting := by unfold indexSetting; adv_tac
instance : Adv indexSettings := by unfold indexSettings; adv_tac
instance : Adv subject := by unfold subject; adv_tac
instance : Adv singleIndex := by unfold singleIndex; adv_tac
instance : Adv compositeIndex := by unfold compositeIndex; adv_tac
instance : Adv indexRule := by unfold indexRule; adv_tac
instance : Adv indexesRule := by unfold indexesRule; adv_tac
instance : Adv aliasRule := by unfold aliasRule; adv_tac
instance : Adv headerColor := by unfold headerColor; adv_tac
instance : Adv tableSetting := by unfold tableSetting; adv_tac
instance : Adv tableSettings := by unfold tableSettings; adv_tac
instance (props : Bool) : Adv (tableElement props) := by unfold tableElement; adv_tac
instance : Adv tableName := by unfold tableName; adv_tac
instance (props : Bool) : Adv (tableRule props) := by
  unfold tableRule
  adv_tac
instance : Adv enumSettings := by unfold enumSettings; adv_tac
instance : Adv enumItem := by unfold enumItem; adv_tac
instance : Adv enumName := by unfold enumName; adv_tac
instance : Adv enumRule := by unfold enumRule; adv_tac
instance : Adv groupTableName := by unfold groupTableName; adv_tac
instance : Adv tgElement := by unfold tgElement; adv_tac
instance : Adv tgSetting := by unfold tgSetting; adv_tac
instance : Adv tgSettings := by unfold tgSettings; adv_tac
instance : Adv tableGroupRule := by unfold tableGroupRule; adv_tac
instance : Adv projectField := by unfold projectField; adv_tac
instance : Adv projectElement := by unfold projectElement; adv_tac
instance : Adv projectRule := by unfold projectRule; adv_tac
instance : Adv stickyNoteRule := by unfold stickyNoteRule; adv_tac
instance (props : Bool) : Adv (element props) := by unfold element; adv_tac

/-- **the element loop of the document is not cut short by its fuel**: `manyF (element props)` equals
    `many (element props) n` for every `n` above the measure - the result is the one an unbounded
    repetition (pyparsing's `ZeroOrMore`) gives. -/
theorem document_fuel_irrelevant (props : Bool) (c : Cur) (n : Nat) (h : mu c < n) :
    manyF (element props) c = many (element props) n c :=
  manyF_any_fuel (element props) c n h

end Fuel
end PyDBML
