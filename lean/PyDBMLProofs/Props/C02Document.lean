/-
C01/C02/C05/C14/C15 — whole documents: enums, tables (columns in any form that is read back, possibly under a comment),
a project, inline and standalone references between their columns, table groups over these tables, sticky notes — rendered and read back to the same database
(`document_roundtrip`, and its instance for columns with settings `flags_document_roundtrip_partial`).
-/
import PyDBMLProofs.Props.C02Group
import PyDBMLProofs.Props.C02FlagsTables
import PyDBMLProofs.Props.C02Inline
import PyDBMLProofs.Props.C02Project
import PyDBMLProofs.Props.C02EnumNote
namespace PyDBML
namespace C02
open Lex Grammar Build

variable {σ : Type}

/-- what a document of the covered language declares -/
structure DocSpec (σ : Type) where
  /-- enums: a name and the items (name, note text - empty for none) -/
  enums : List ESpecN := []
  tables : List (FTab σ)
  /-- the references written inline, among the settings of their first column, in document order -/
  inl : List RSpec := []
  /-- the standalone references -/
  refs : List RSpec := []
  /-- table groups: a name and the POSITIONS of the member tables -/
  groups : List (Str × List Nat) := []
  sticky : List Sticky := []
  /-- the project: its name and its items `key: 'value'`, in order -/
  project : Option (Str × List (Str × Str)) := none

def mkProject (p : Str × List (Str × Str)) : Project := { name := p.1, items := p.2 }

def mkEnum (e : ESpecN) : Enum := mkEnumN e

def mkGroup (g : Str × List Nat) : Group := { name := g.1, items := g.2 }

/-- the names a group's members are written with -/
def ColForm.gnames (F : ColForm σ) (ts : List (FTab σ)) (g : Str × List Nat) : List Str := g.2.map (F.tnameAt ts)

/-- the database such a document stands for -/
def DocSpec.db (F : ColForm σ) (ap : Bool) (d : DocSpec σ) : Db :=
  { enums := d.enums.map mkEnum, tables := d.tables.map F.mkTable,
    refs := d.inl.map (fun r => mkRefB (r, true)) ++ d.refs.map mkRef,
    groups := d.groups.map mkGroup, sticky := d.sticky, project := d.project.map mkProject, allowProps := ap }

structure DocOK (F : ColForm σ) (ap : Bool) (d : DocSpec σ) : Prop where
  enums : ∀ e ∈ d.enums, ESpecNOK e
  /-- enum names are pairwise different (all enums are in schema public) -/
  enumNames : d.enums.Pairwise (fun a b => a.1 ≠ b.1)
  tables : ∀ t ∈ d.tables, F.specOK ap t
  tablesNe : d.tables ≠ []
  colNames : ∀ t ∈ d.tables, ∀ s ∈ t.cols, NameOK (F.cname s)
  resolvable : F.Resolvable d.tables
  /-- no column's type text names a declared enum (it would then hold the enum) -/
  noShadow : ∀ t ∈ d.tables, F.noShadow (d.enums.map mkEnum) t
  refsIn : ∀ r ∈ d.refs, F.RSpecIn d.tables r
  inlIn : ∀ r ∈ d.inl, F.RSpecIn d.tables r
  /-- a many-to-many reference is never shown inline (`Reference.inline`) -/
  inlKind : ∀ r ∈ d.inl, r.kind ≠ .manyToMany
  /-- what the columns write inline, in document order, are the names of the inline references -/
  inlWritten : F.written d.tables = d.inl.map (F.iwritten d.tables)
  /-- no two references, inline or standalone, between the same columns with the same kind -/
  refsNodup : (d.inl ++ d.refs).Nodup
  /-- group names are quoted names, pairwise different; members are tables of the document, none listed twice -/
  groups : ∀ g ∈ d.groups, NameOK g.1 ∧ g.2.Nodup ∧ ∀ i ∈ g.2, i < d.tables.length
  groupNames : d.groups.Pairwise (fun a b => a.1 ≠ b.1)
  sticky : ∀ s ∈ d.sticky, StickyOK s
  project : ∀ p ∈ d.project.toList, ProjectOK p.1 p.2

/-! ### the element forms of the document -/

theorem map_pmap_const {α β γ : Type} {P : α → Prop} (f : ∀ a, P a → β) (g : β → γ) (k : α → γ)
    (hk : ∀ a h, g (f a h) = k a) : ∀ (l : List α) (H : ∀ a ∈ l, P a), (l.pmap f H).map g = l.map k := by
  intro l
  induction l with
  | nil => intro _; rfl
  | cons a r ih => intro H; simp [List.pmap, hk, ih]

@[simp] theorem filterMap_const_none {α β : Type} (l : List α) : l.filterMap (fun _ => (none : Option β)) = [] := by
  induction l with
  | nil => rfl
  | cons a r ih => simp [ih]

theorem rtext_ok (F : ColForm σ) (ap : Bool) (d : DocSpec σ) (h : DocOK F ap d) :
    ∀ x ∈ d.refs.map (F.rtext d.tables), RTextOK x := by
  intro x hx
  obtain ⟨r, hr, rfl⟩ := List.mem_map.mp hx
  obtain ⟨ta, tb, h1, h2, hc1, hc2⟩ := h.refsIn r hr
  have hma := List.mem_of_getElem? h1
  have hmb := List.mem_of_getElem? h2
  have hca : ta.cols[r.c1]? = some ta.cols[r.c1] := List.getElem?_eq_getElem hc1
  have hcb : tb.cols[r.c2]? = some tb.cols[r.c2] := List.getElem?_eq_getElem hc2
  refine ⟨?_, ?_, ?_, ?_⟩
  · simpa [ColForm.rtext, ColForm.tnameAt, h1] using (h.tables ta hma).1
  · simpa [ColForm.rtext, ColForm.cnameAt, h1, hca] using h.colNames ta hma _ (List.getElem_mem hc1)
  · simpa [ColForm.rtext, ColForm.tnameAt, h2] using (h.tables tb hmb).1
  · simpa [ColForm.rtext, ColForm.cnameAt, h2, hcb] using h.colNames tb hmb _ (List.getElem_mem hc2)

theorem gnames_ok (F : ColForm σ) (ap : Bool) (d : DocSpec σ) (h : DocOK F ap d) :
    ∀ g ∈ d.groups, NameOK g.1 ∧ ∀ n ∈ F.gnames d.tables g, NameOK n := by
  intro g hg
  refine ⟨(h.groups g hg).1, ?_⟩
  intro n hn
  obtain ⟨i, hi, rfl⟩ := List.mem_map.mp hn
  have hl := (h.groups g hg).2.2 i hi
  have := h.tables d.tables[i] (List.getElem_mem hl)
  simpa [ColForm.tnameAt, List.getElem?_eq_getElem hl] using this.1

def DocSpec.forms (F : ColForm σ) (ap : Bool) (d : DocSpec σ) (h : DocOK F ap d) : List (EForm ap) :=
  d.project.toList.pmap (fun p hp => projectE ap p.1 p.2 hp) h.project
  ++ d.enums.pmap (fun e he => enumEN ap e he) h.enums
  ++ d.tables.pmap (fun t ht => F.tableE ap t ht) h.tables
  ++ (d.refs.map (F.rtext d.tables)).pmap (fun r hr => refE ap r hr) (rtext_ok F ap d h)
  ++ d.groups.pmap (fun g hg => groupE ap g.1 (F.gnames d.tables g) hg.1 hg.2) (gnames_ok F ap d h)
  ++ d.sticky.pmap (fun s hs => stickyE ap s hs) h.sticky

/-- the blueprints the document rule reads -/
def DocSpec.elems (F : ColForm σ) (d : DocSpec σ) : List Bp.Elem :=
  d.project.toList.map (fun p => Bp.Elem.project (projectBpOf p.1 p.2)) ++ d.enums.map mkEnumElemN ++ d.tables.map F.mkElem
    ++ (d.refs.map (F.rtext d.tables)).map mkRefElem
    ++ d.groups.map (fun g => Bp.Elem.group (groupBpOf g.1 (F.gnames d.tables g)))
    ++ d.sticky.map mkStickyElem

/-- the texts of the elements, in the order the renderer writes them -/
def DocSpec.texts (F : ColForm σ) (d : DocSpec σ) : List Str :=
  d.project.toList.map (fun p => projectText p.1 p.2) ++ d.enums.map (fun e => enumTextN e.1 e.2) ++ d.tables.map F.tabText
    ++ (d.refs.map (F.rtext d.tables)).map refText
    ++ d.groups.map (fun g => groupText g.1 (F.gnames d.tables g))
    ++ d.sticky.map (fun s => stickyText s.name s.text)

theorem DocSpec.forms_elems (F : ColForm σ) (ap : Bool) (d : DocSpec σ) (h : DocOK F ap d) :
    (d.forms F ap h).map (·.elem) = d.elems F := by
  simp only [DocSpec.forms, DocSpec.elems, List.map_append]
  rw [map_pmap_const (fun (p : Str × List (Str × Str)) (hp : ProjectOK p.1 p.2) => projectE ap p.1 p.2 hp) (·.elem)
      (fun p => Bp.Elem.project (projectBpOf p.1 p.2)) (fun _ _ => rfl),
    map_pmap_const (fun e he => enumEN ap e he) (·.elem) mkEnumElemN (fun _ _ => rfl),
    map_pmap_const (fun t ht => F.tableE ap t ht) (·.elem) F.mkElem (fun _ _ => rfl),
    map_pmap_const (fun r hr => refE ap r hr) (·.elem) mkRefElem (fun _ _ => rfl),
    map_pmap_const (fun g hg => groupE ap g.1 (F.gnames d.tables g) hg.1 hg.2) (·.elem)
      (fun g => Bp.Elem.group (groupBpOf g.1 (F.gnames d.tables g))) (fun _ _ => rfl),
    map_pmap_const (fun s hs => stickyE ap s hs) (·.elem) mkStickyElem (fun _ _ => rfl)]

theorem DocSpec.forms_texts (F : ColForm σ) (ap : Bool) (d : DocSpec σ) (h : DocOK F ap d) :
    (d.forms F ap h).map (·.text) = d.texts F := by
  simp only [DocSpec.forms, DocSpec.texts, List.map_append]
  rw [map_pmap_const (fun (p : Str × List (Str × Str)) (hp : ProjectOK p.1 p.2) => projectE ap p.1 p.2 hp) (·.text)
      (fun p => projectText p.1 p.2) (fun p hp => projectE_text ap p.1 p.2 hp),
    map_pmap_const (fun e he => enumEN ap e he) (·.text) (fun e => enumTextN e.1 e.2) (fun e he => enumEN_text ap e he),
    map_pmap_const (fun t ht => F.tableE ap t ht) (·.text) F.tabText (fun t ht => F.tableE_text ap t ht),
    map_pmap_const (fun r hr => refE ap r hr) (·.text) refText (fun r hr => refE_text ap r hr),
    map_pmap_const (fun g hg => groupE ap g.1 (F.gnames d.tables g) hg.1 hg.2) (·.text)
      (fun g => groupText g.1 (F.gnames d.tables g)) (fun g hg => groupE_text ap g.1 _ hg.1 hg.2),
    map_pmap_const (fun s hs => stickyE ap s hs) (·.text) (fun s => stickyText s.name s.text)
      (fun s hs => stickyE_text ap s hs)]

theorem DocSpec.forms_ne (F : ColForm σ) (ap : Bool) (d : DocSpec σ) (h : DocOK F ap d) : d.forms F ap h ≠ [] := by
  intro he
  have := congrArg (List.map (·.elem)) he
  rw [d.forms_elems F ap h] at this
  have hne := h.tablesNe
  cases ht : d.tables with
  | nil => exact hne ht
  | cons t r => simp [DocSpec.elems, ht] at this

/-! ### the build of such a document -/

theorem buildEnum_plain (e : ESpecN) (he : ESpecNOK e) : buildEnum (enumBpN e.1 e.2) = .ok (mkEnum e) := buildEnum_N e he

theorem foldlM_enums : ∀ (todo done : List ESpecN), (∀ e ∈ todo, ESpecNOK e) → (done ++ todo).Pairwise (fun a b => a.1 ≠ b.1) →
    (todo.map fun e => enumBpN e.1 e.2).foldlM enumStep (done.map mkEnum) = .ok ((done ++ todo).map mkEnum) := by
  intro todo
  induction todo with
  | nil => intro done _ _; simp [pure, Except.pure]
  | cons e r ih =>
    intro done hok hp
    have hd : ∀ u ∈ done, u.1 ≠ e.1 := by
      intro u hu
      have := List.pairwise_append.mp hp
      exact this.2.2 u hu e (by simp)
    rw [List.map_cons, List.foldlM_cons]
    have hstep : enumStep (done.map mkEnum) (enumBpN e.1 e.2) = .ok ((done ++ [e]).map mkEnum) := by
      unfold enumStep
      simp only [buildEnum_plain e (hok e (by simp)), bind, Except.bind]
      unfold addEnum
      have hno : (done.map mkEnum).any (fun x => x.name == (mkEnum e).name && x.schema == (mkEnum e).schema) = false := by
        rw [List.any_eq_false]
        intro x hx
        obtain ⟨u, hu, rfl⟩ := List.mem_map.mp hx
        simp only [mkEnum, mkEnumN, Bool.and_eq_true, beq_iff_eq, not_and]
        intro hname
        exact absurd hname (hd u hu)
      simp [hno, pure, Except.pure]
    rw [hstep]
    simp only [bind, Except.bind]
    have := ih (done ++ [e]) (fun q hq => hok q (by simp [hq])) (by simpa using hp)
    simpa using this

theorem splitDot_no_dot' (t : Str) (h : '.' ∉ t) : splitDot t = [t] := by
  induction t with
  | nil => rfl
  | cons c r ih =>
    have hc : c ≠ '.' := fun e => h (by simp [e])
    have hr : '.' ∉ r := fun e => h (by simp [e])
    rw [splitDot, ih hr]
    simp [hc]

theorem groupItemName_plain (tn : Str) (h : '.' ∉ tn) : groupItemName tn = (lit "public", tn) := by
  unfold groupItemName
  rw [splitDot_no_dot' tn h]

theorem foldlM_groupStep (F : ColForm σ) (ts : List (FTab σ)) (hr : F.Resolvable ts) :
    ∀ (todo done : List Nat), (done ++ todo).Nodup → (∀ i ∈ todo, i < ts.length) →
    (todo.map (F.tnameAt ts)).foldlM (groupStep (ts.map F.mkTable)) done = .ok (done ++ todo) := by
  intro todo
  induction todo with
  | nil => intro done _ _; simp [pure, Except.pure]
  | cons i r ih =>
    intro done hnd hlt
    have hi : i < ts.length := hlt i (by simp)
    have hget : ts[i]? = some ts[i] := List.getElem?_eq_getElem hi
    have hname : F.tnameAt ts i = ts[i].name := by simp [ColForm.tnameAt, hget]
    have hnodot : '.' ∉ ts[i].name := hr.nodot _ (List.getElem_mem hi)
    rw [List.map_cons, List.foldlM_cons]
    have hstep : groupStep (ts.map F.mkTable) done (F.tnameAt ts i) = .ok (done ++ [i]) := by
      unfold groupStep
      rw [hname, groupItemName_plain _ hnodot]
      simp only [F.locateTable_ok ts hr i ts[i] hget, bind, Except.bind]
      have hni : i ∉ done := by
        intro hm
        have := List.nodup_append.mp hnd
        exact this.2.2 i hm i (by simp) rfl
      simp [hni, pure, Except.pure]
    rw [hstep]
    simp only [bind, Except.bind]
    have := ih (done ++ [i]) (by simpa using hnd) (fun q hq => hlt q (by simp [hq]))
    simpa using this

theorem foldlM_groups (F : ColForm σ) (ts : List (FTab σ)) (hr : F.Resolvable ts) (db0 : Db)
    (hdb : db0.tables = ts.map F.mkTable) :
    ∀ (todo done : List (Str × List Nat)), (done ++ todo).Pairwise (fun a b => a.1 ≠ b.1) →
    (∀ g ∈ todo, g.2.Nodup ∧ ∀ i ∈ g.2, i < ts.length) →
    (todo.map fun g => groupBpOf g.1 (F.gnames ts g)).foldlM (groupAddStep db0) (done.map mkGroup)
      = .ok ((done ++ todo).map mkGroup) := by
  intro todo
  induction todo with
  | nil => intro done _ _; simp [pure, Except.pure]
  | cons g r ih =>
    intro done hp hok
    have hd : ∀ u ∈ done, u.1 ≠ g.1 := by
      intro u hu
      have := List.pairwise_append.mp hp
      exact this.2.2 u hu g (by simp)
    rw [List.map_cons, List.foldlM_cons]
    have hbuild : buildGroup db0 (groupBpOf g.1 (F.gnames ts g)) = .ok (mkGroup g) := by
      unfold buildGroup
      have := foldlM_groupStep F ts hr g.2 [] (by simpa using (hok g (by simp)).1) (hok g (by simp)).2
      simp only [List.nil_append] at this
      simp only [groupBpOf, ColForm.gnames, hdb, this, bind, Except.bind, pure, Except.pure, mkGroup, Option.map_none]
    have hstep : groupAddStep db0 (done.map mkGroup) (groupBpOf g.1 (F.gnames ts g)) = .ok ((done ++ [g]).map mkGroup) := by
      unfold groupAddStep
      simp only [hbuild, bind, Except.bind]
      have hno : (done.map mkGroup).any (fun x => x.name == (mkGroup g).name) = false := by
        rw [List.any_eq_false]
        intro x hx
        obtain ⟨u, hu, rfl⟩ := List.mem_map.mp hx
        simpa [mkGroup] using hd u hu
      simp [hno, pure, Except.pure]
    rw [hstep]
    simp only [bind, Except.bind]
    have := ih (done ++ [g]) (by simpa using hp) (fun q hq => hok q (by simp [hq]))
    simpa using this

theorem DocSpec.build (F : ColForm σ) (ap : Bool) (d : DocSpec σ) (h : DocOK F ap d) :
    buildDatabase ap (d.elems F) = .ok (d.db F ap) := by
  have hE : enumBps (d.elems F) = d.enums.map fun e => enumBpN e.1 e.2 := by
    simp [enumBps, DocSpec.elems, mkEnumElemN, ColForm.mkElem, mkRefElem, mkStickyElem, List.filterMap_append,
      List.filterMap_map, Function.comp_def]
  have hT : tableBps (d.elems F) = d.tables.map fun t => F.tableBpC t.name t.cols t.note t.comment := by
    simp [tableBps, DocSpec.elems, mkEnumElemN, ColForm.mkElem, mkRefElem, mkStickyElem, List.filterMap_append,
      List.filterMap_map, Function.comp_def]
  have hG : groupBps (d.elems F) = d.groups.map fun g => groupBpOf g.1 (F.gnames d.tables g) := by
    simp [groupBps, DocSpec.elems, mkEnumElemN, ColForm.mkElem, mkRefElem, mkStickyElem, List.filterMap_append,
      List.filterMap_map, Function.comp_def]
  have hS : stickyBps (d.elems F) = d.sticky.map fun s => ({ name := s.name, text := s.text } : Bp.StickyBp) := by
    simp [stickyBps, DocSpec.elems, mkEnumElemN, ColForm.mkElem, mkRefElem, mkStickyElem, List.filterMap_append,
      List.filterMap_map, Function.comp_def]
  have hP : projectBp (d.elems F) = d.project.map fun p => projectBpOf p.1 p.2 := by
    cases hpj : d.project <;>
      simp [projectBp, DocSpec.elems, hpj, mkEnumElemN, ColForm.mkElem, mkRefElem, mkStickyElem, List.filterMap_append,
        List.filterMap_map, Function.comp_def]
  have hR : refBlueprints (d.elems F)
      = (d.inl.map (fun r => (r, true)) ++ d.refs.map (fun r => (r, false))).map (F.bpB d.tables) := by
    have h0 : refBlueprints (d.project.toList.map fun p => Bp.Elem.project (projectBpOf p.1 p.2)) = [] := by
      cases d.project <;> simp [refBlueprints]
    have h1 : refBlueprints (d.enums.map mkEnumElemN) = [] := by
      simp [refBlueprints, mkEnumElemN, List.flatMap_map]
    have h2 : refBlueprints (d.tables.map F.mkElem) = d.inl.map (fun r => F.bpB d.tables (r, true)) := by
      have hw : refBlueprints (d.tables.map F.mkElem) = (F.written d.tables).map ibp := by
        unfold ColForm.written
        simp only [refBlueprints, ColForm.mkElem, List.flatMap_map, List.map_flatMap, ColForm.tableBpC]
        apply flatMap_congr_mem
        intro t ht
        apply flatMap_congr_mem
        intro s hs
        have hn : (F.bp s).name = F.cname s :=
          (buildColumn_name _ _ _ (F.build ap (d.enums.map mkEnum) s ((h.tables t ht).2.1 s hs) (h.noShadow t ht s hs))).symm
        rw [F.bp_refs, List.map_map, List.map_map]
        apply List.map_congr_left
        intro r _
        simp [ibp, hn]
      rw [hw, h.inlWritten, List.map_map]
      rfl
    have h4 : refBlueprints (d.sticky.map mkStickyElem) = [] := by
      simp [refBlueprints, mkStickyElem, List.flatMap_map]
    have h5 : refBlueprints (d.groups.map fun g => Bp.Elem.group (groupBpOf g.1 (F.gnames d.tables g))) = [] := by
      simp [refBlueprints, List.flatMap_map]
    simp only [DocSpec.elems, refBlueprints_append, h0, h1, h2, h4, h5, refBlueprints_refElems]
    simp [List.map_map, Function.comp_def, ColForm.bpB_false]
  have hFe := foldlM_enums d.enums [] h.enums (by simpa using h.enumNames)
  simp only [List.map_nil, List.nil_append] at hFe
  have hFt := F.foldlM_tables ap (d.enums.map mkEnum) d.tables [] (by simpa using h.resolvable.tnames)
    (fun t ht => (h.tables t ht).2.1) h.noShadow (fun t ht => (h.tables t ht).2.2.2.2.2.2)
  simp only [List.map_nil, List.nil_append] at hFt
  have hst : (d.sticky.map fun s => ({ name := s.name, text := s.text } : Bp.StickyBp)).map buildSticky = d.sticky := by
    rw [List.map_map]
    conv => rhs; rw [← List.map_id d.sticky]
    apply List.map_congr_left
    intro s hs
    have := (h.sticky s hs).2.2.2.2
    cases s
    simp_all [buildSticky]
  have hFg := foldlM_groups F d.tables h.resolvable
    { tables := d.tables.map F.mkTable, enums := d.enums.map mkEnum, allowProps := ap } rfl d.groups []
    (by simpa using h.groupNames) (fun g hg => (h.groups g hg).2)
  simp only [List.map_nil, List.nil_append] at hFg
  have hRf := F.foldlM_refsB d.tables h.resolvable
    { tables := d.tables.map F.mkTable, enums := d.enums.map mkEnum, allowProps := ap, groups := d.groups.map mkGroup,
      sticky := d.sticky, project := d.project.map mkProject } rfl (d.inl.map (fun r => (r, true)) ++ d.refs.map (fun r => (r, false))) []
    (by
      intro x hx
      simp only [List.nil_append, List.mem_append, List.mem_map] at hx
      rcases hx with ⟨r, hr, rfl⟩ | ⟨r, hr, rfl⟩
      · exact h.inlIn r hr
      · exact h.refsIn r hr)
    (by simpa [List.map_map, Function.comp_def] using h.refsNodup)
  simp only [List.map_nil, List.nil_append] at hRf
  have hmk : (d.inl.map (fun r => (r, true)) ++ d.refs.map (fun r => (r, false))).map mkRefB
      = d.inl.map (fun r => mkRefB (r, true)) ++ d.refs.map mkRef := by
    simp only [List.map_append, List.map_map]
    rfl
  rw [hmk] at hRf
  have hBP : buildProject (d.project.map fun p => projectBpOf p.1 p.2) = .ok (d.project.map mkProject) := by
    cases d.project <;> simp [buildProject, buildNote, projectBpOf, mkProject, bind, Except.bind, pure, Except.pure]
  unfold buildDatabase
  simp only [hE, hT, hG, hS, hP, hR, hFe, hFt, hFg, hst, hBP, List.foldlM_nil, pure, Except.pure, bind, Except.bind]
  rw [hRf]
  rfl

/-! ### the rendering of such a database -/

theorem renderEnum_plain (e : ESpecN) (he : ESpecNOK e) : Dbml.renderEnum (mkEnum e) = enumTextN e.1 e.2 := renderEnum_N e he

theorem ColForm.renderRef_ok' (F : ColForm σ) (db : Db) (ts : List (FTab σ)) (hdb : db.tables = ts.map F.mkTable)
    (r : RSpec) (hin : F.RSpecIn ts r) : Dbml.renderRef db (mkRef r) = .ok (refText (F.rtext ts r)) := by
  obtain ⟨ta, tb, h1, h2, hc1, hc2⟩ := hin
  have hca : ta.cols[r.c1]? = some ta.cols[r.c1] := List.getElem?_eq_getElem hc1
  have hcb : tb.cols[r.c2]? = some tb.cols[r.c2] := List.getElem?_eq_getElem hc2
  have g1 : getD? db.tables r.t1 "ref table position" = .ok (F.mkTable ta) := by
    simp [getD?, hdb, List.getElem?_map, h1]
  have g2 : getD? db.tables r.t2 "ref table position" = .ok (F.mkTable tb) := by
    simp [getD?, hdb, List.getElem?_map, h2]
  have k1 : Dbml.renderCols (F.mkTable ta) [r.c1] = .ok ('"' :: (F.cname (ta.cols[r.c1]) ++ ['"'])) := by
    simp [Dbml.renderCols, getD?, ColForm.mkTable, ColForm.table, ColForm.cname, List.getElem?_map, hca, bind, Except.bind, pure, Except.pure]
  have k2 : Dbml.renderCols (F.mkTable tb) [r.c2] = .ok ('"' :: (F.cname (tb.cols[r.c2]) ++ ['"'])) := by
    simp [Dbml.renderCols, getD?, ColForm.mkTable, ColForm.table, ColForm.cname, List.getElem?_map, hcb, bind, Except.bind, pure, Except.pure]
  unfold Dbml.renderRef
  have hinl : (mkRef r).inline = false := by simp [mkRef, Ref.inline]
  simp only [hinl, Bool.false_eq_true, ↓reduceIte]
  show (getD? db.tables r.t1 "ref table position" >>= fun t1 => _) = _
  rw [g1]
  show (getD? db.tables r.t2 "ref table position" >>= fun t2 => _) = _
  rw [g2]
  simp only [mkRef] at k1 k2 ⊢
  simp only [bind, Except.bind, k1, k2, pure, Except.pure]
  simp [refText, refTextP, sideText, ColForm.rtext, ColForm.tnameAt, ColForm.cnameAt, h1, h2, hca, hcb, truthy, Dbml.optComment,
    qualName, ColForm.mkTable, ColForm.table, lit]

theorem memberLines_flatten (F : ColForm σ) (ts : List (FTab σ)) (is : List Nat) :
    (is.map fun i => lit "    " ++ ('"' :: F.tnameAt ts i ++ ['"']) ++ ['\n']).flatten = memberLines (is.map (F.tnameAt ts)) := by
  induction is with
  | nil => rfl
  | cons i r ih =>
    rw [List.map_cons, List.flatten_cons, ih]
    simp [memberLines, lit]

theorem renderGroup_ok (F : ColForm σ) (ap : Bool) (d : DocSpec σ) (g : Str × List Nat) (hg : NameOK g.1)
    (hlt : ∀ i ∈ g.2, i < d.tables.length) :
    Dbml.renderGroup (d.db F ap) (mkGroup g) = .ok (groupText g.1 (F.gnames d.tables g)) := by
  have hitems : (mkGroup g).items.mapM (fun i => do
      let t ← getD? (d.db F ap).tables i "group item position"
      pure (lit "    " ++ qualName t.schema t.name ++ ['\n']))
      = .ok (g.2.map fun i => lit "    " ++ ('"' :: F.tnameAt d.tables i ++ ['"']) ++ ['\n']) := by
    simp only [mkGroup]
    apply mapM_ok_map_mem
    intro i hi
    have hl := hlt i hi
    have hget : d.tables[i]? = some d.tables[i] := List.getElem?_eq_getElem hl
    simp [getD?, DocSpec.db, List.getElem?_map, hget, ColForm.mkTable, ColForm.table, qualName, ColForm.tnameAt, bind,
      Except.bind, pure, Except.pure, lit]
  unfold Dbml.renderGroup
  rw [hitems]
  have hq : doublequoteString (mkGroup g).name = .ok ('"' :: g.1 ++ ['"']) := doublequote_nameOK g.1 hg
  rw [hq]
  simp only [Dbml.liftPy, bind, Except.bind, pure, Except.pure, memberLines_flatten]
  simp [mkGroup, groupText, ColForm.gnames, Dbml.optComment, truthy, lit]

theorem DocSpec.render (F : ColForm σ) (ap : Bool) (d : DocSpec σ) (h : DocOK F ap d) :
    Dbml.renderDb (d.db F ap) = .ok (joinWith (lit "\n\n") (d.texts F)) := by
  have henums : (d.db F ap).enums.map Dbml.renderEnum = d.enums.map fun e => enumTextN e.1 e.2 := by
    simp only [DocSpec.db, List.map_map]
    apply List.map_congr_left
    intro e he
    exact renderEnum_plain e (h.enums e he)
  have htabs : (List.range (d.db F ap).tables.length).mapM (Dbml.renderTable (d.db F ap)) = .ok (d.tables.map F.tabText) := by
    have := range_mapM_form_pos F.mkTable "table position" F.tabText d.tables
      (fun i t => Dbml.renderTableBody (d.db F ap) i t)
      (fun i t ht => F.renderTableBody_ok (d.db F ap) i t.name t.cols t.comment t.note
        (fun ci s hs => F.inline_rendered d.tables h.resolvable (d.db F ap) rfl d.inl d.refs rfl h.inlIn h.inlKind
          h.inlWritten i ci t s ht hs)
        (h.tables t (List.mem_of_getElem? ht)).2.1 (h.tables t (List.mem_of_getElem? ht)).2.2.1
        (h.tables t (List.mem_of_getElem? ht)).2.2.2.1 (h.tables t (List.mem_of_getElem? ht)).2.2.2.2.1)
    unfold Dbml.renderTable
    exact this
  have hrefs : ((d.db F ap).refs.filter (!·.inline)).mapM (Dbml.renderRef (d.db F ap))
      = .ok ((d.refs.map (F.rtext d.tables)).map refText) := by
    have hfil : (d.db F ap).refs.filter (!·.inline) = d.refs.map mkRef := filter_not_inline d.inl d.refs h.inlKind
    rw [hfil]
    simp only [List.mapM_map, List.map_map]
    have : ∀ l : List RSpec, (∀ r ∈ l, F.RSpecIn d.tables r) →
        l.mapM (Dbml.renderRef (d.db F ap) ∘ mkRef) = .ok (l.map (refText ∘ F.rtext d.tables)) := by
      intro l
      induction l with
      | nil => intro _; rfl
      | cons x xs ih =>
        intro hx
        rw [List.mapM_cons]
        have h1 := F.renderRef_ok' (d.db F ap) d.tables rfl x (hx x (by simp))
        simp only [Function.comp, h1, bind, Except.bind]
        have := ih (fun q hq => hx q (by simp [hq]))
        rw [this]
        rfl
    exact this d.refs h.refsIn
  have hgroups : (d.db F ap).groups.mapM (Dbml.renderGroup (d.db F ap))
      = .ok (d.groups.map fun g => groupText g.1 (F.gnames d.tables g)) := by
    simp only [DocSpec.db, List.mapM_map]
    have : ∀ l : List (Str × List Nat), (∀ g ∈ l, NameOK g.1 ∧ ∀ i ∈ g.2, i < d.tables.length) →
        l.mapM (Dbml.renderGroup (d.db F ap) ∘ mkGroup) = .ok (l.map fun g => groupText g.1 (F.gnames d.tables g)) := by
      intro l
      induction l with
      | nil => intro _; rfl
      | cons g r ih =>
        intro hg
        rw [List.mapM_cons]
        have h1 := renderGroup_ok F ap d g (hg g (by simp)).1 (hg g (by simp)).2
        simp only [Function.comp, h1, bind, Except.bind]
        have := ih (fun q hq => hg q (by simp [hq]))
        rw [this]
        rfl
    exact this d.groups (fun g hg => ⟨(h.groups g hg).1, (h.groups g hg).2.2⟩)
  have hsticky : (d.db F ap).sticky.map Dbml.renderSticky = d.sticky.map fun s => stickyText s.name s.text := by
    simp only [DocSpec.db]
    apply List.map_congr_left
    intro s hs
    exact renderSticky_plain s (h.sticky s hs).2.2.1
  have hproj : Dbml.renderProjectList (d.db F ap) = .ok (d.project.toList.map fun p => projectText p.1 p.2) := by
    unfold Dbml.renderProjectList
    cases hpj : d.project with
    | none => simp [DocSpec.db, hpj]
    | some p =>
      have hok := h.project p (by simp [hpj])
      simp [DocSpec.db, hpj, mkProject, renderProject_ok p.1 p.2 hok, Except.map]
  unfold Dbml.renderDb
  simp only [bind, Except.bind, hproj, htabs, hrefs, henums, hsticky, hgroups]
  simp [DocSpec.db, DocSpec.texts, pure, Except.pure]

/-- **the round trip of whole documents.**  A database holding any number of enums (schema public, pairwise different
    names, plain items), any positive number of tables (pairwise different names, columns in a form that is read back,
    each table possibly under a one-line comment), any number of pairwise different single-column references between
    their columns - written inline among the settings of their first column (`d.inl`, not many-to-many: those are never
    shown inline) or standalone (`d.refs`) -, any number of table groups and any number of sticky notes is rendered to
    DBML and parsed back to exactly the same database: every element comes back once, in its section, in order, the
    references are linked to the columns they were written from, and a reference written inline comes back as an
    inline reference of the same column. -/
theorem document_roundtrip (F : ColForm σ) (ap : Bool) (d : DocSpec σ) (h : DocOK F ap d) :
    ∃ text, Dbml.renderDb (d.db F ap) = .ok text ∧ Build.parse ap text = .ok (d.db F ap) := by
  refine ⟨joinWith (lit "\n\n") (d.texts F), d.render F ap h, ?_⟩
  rw [← d.forms_texts F ap h, docTextE_join]
  obtain ⟨c', hp⟩ := parseDoc_elems (d.forms F ap h) (d.forms_ne F ap h)
  rw [d.forms_elems F ap h] at hp
  unfold Build.parse
  have hbom : removeBom (docTextE (d.forms F ap h)) = docTextE (d.forms F ap h) := by
    cases hf : d.forms F ap h with
    | nil => rfl
    | cons e r =>
      have hne : e.text ≠ [] := by have := e.text_length; intro h0; rw [h0] at this; simp at this
      cases ht : e.text with
      | nil => exact absurd ht hne
      | cons x xs =>
        have hx : x.toNat ≠ 0xFEFF := by
          -- the first character is `/` (a comment) or the element's head character: ASCII, not U+FEFF
          cases hpre : e.pre with
          | some s0 => simp [EForm.text, hpre, commentText] at ht; rw [← ht.1]; decide
          | none =>
            simp [EForm.text, hpre, commentText] at ht
            have := e.headAscii
            rw [ht.1] at this
            omega
        simp [docTextE, ht, removeBom, hx]
  rw [hbom, hp]
  simp only []
  rw [d.build F ap h]

/-! ### the instance: columns with settings -/

theorem splitDot_no_dot (t : Str) (h : '.' ∉ t) : splitDot t = [t] := by
  induction t with
  | nil => rfl
  | cons c r ih =>
    have hc : c ≠ '.' := fun e => h (by simp [e])
    have hr : '.' ∉ r := fun e => h (by simp [e])
    rw [splitDot, ih hr]
    simp [hc]

theorem resolveType_plain (enums : List Enum) (ty : Str) (hty : TypeOK ty) (hno : ∀ e ∈ enums, e.name ≠ ty) :
    resolveTypePure enums ty = ColType.plain ty := by
  have hnd : '.' ∉ ty := by
    intro hm
    have := List.all_eq_true.mp hty.2 '.' hm
    simp [isNameChar, isAlnum, isAlpha, isDigit] at this
  unfold resolveTypePure typeKey
  rw [splitDot_no_dot ty hnd]
  have : enums.findIdx? (fun e => e.schema == lit "public" && e.name == ty) = none := by
    rw [List.findIdx?_eq_none_iff]
    intro e he
    simp [hno e he]
  simp only [this]

/-- a document whose columns carry settings -/
abbrev FlagDoc := DocSpec FCol

/-- **C01 / C02 / C05 / C14 / C15: whole documents, end to end.**  A database holding
    * any number of enums in schema public with pairwise different quoted names and quoted items, each item possibly with
      a one-line note (`"item" [note: 'text']`; the empty text stands for: no note),
    * any positive number of tables with pairwise different quoted names, each possibly under a one-line comment and
      possibly with a one-line note written as a `Note { '…' }` block after its columns, each
      with any positive number of columns carrying any subset of `pk`, `increment`, `unique`, `not null`, possibly an
      integer, one-line string or backtick-expression default, a one-line note and (properties switch on) any number of arbitrary properties, whose type text
      names no declared enum,
    * any number of pairwise different single-column references between columns of these tables, each either written
      INLINE in its first column (`ref: > "t"."c"` among the settings; `d.inl`, in document order, none many-to-many;
      `hwritten` says that the columns' `irefs` are exactly the names of these) or standalone (`d.refs`),
    * any number of table groups with pairwise different quoted names over these tables (no table twice in a group),
    * any number of sticky notes with a bare name and a one-line text,
    * possibly a project with a quoted name and at least one item `key: 'value'` (keys: pairwise different bare identifiers
      not beginning with `note`; values: plain lines),
    is rendered to DBML and parsed back to exactly the same database - every element once, in its section, in order; the
    comments on the same tables; the references linked, by table and column name, to the very columns they were written
    from, the inline ones still inline on the same column and before the standalone ones.  The hypotheses on names are exactly the recorded findings (no dot in a table name, a column name is one
    comma-free piece that survives `strip('() ')`, no two columns of a table with one name). -/
theorem flags_document_roundtrip_partial (ap : Bool) (d : FlagDoc)
    (henums : ∀ e ∈ d.enums, NameOK e.1 ∧ (∀ it ∈ e.2, NameOK it.1 ∧ Plain it.2 ∧ hasTriple it.2 = false ∧ norm it.2 = it.2) ∧ e.2 ≠ [])
    (henames : d.enums.Pairwise (fun a b => a.1 ≠ b.1))
    (htabs : ∀ t ∈ d.tables, FlagTabOK ap t) (hne : d.tables ≠ [])
    (htn : d.tables.Pairwise (fun a b => a.name ≠ b.name)) (hnodot : ∀ t ∈ d.tables, '.' ∉ t.name)
    (hcn : ∀ t ∈ d.tables, t.cols.Pairwise (fun a b => a.name ≠ b.name))
    (hcp : ∀ t ∈ d.tables, ∀ c ∈ t.cols, splitComma c.name = [c.name] ∧ stripParenSpace c.name = c.name)
    (hshadow : ∀ t ∈ d.tables, ∀ c ∈ t.cols, ∀ e ∈ d.enums, e.1 ≠ c.type)
    (hin : ∀ r ∈ d.inl ++ d.refs, ∃ ta tb, d.tables[r.t1]? = some ta ∧ d.tables[r.t2]? = some tb ∧ r.c1 < ta.cols.length
      ∧ r.c2 < tb.cols.length)
    (hkind : ∀ r ∈ d.inl, r.kind ≠ .manyToMany)
    (hwritten : (d.tables.flatMap fun t => t.cols.flatMap fun s => s.irefs.map fun r => (t.name, s.name, r))
      = d.inl.map (flagForm.iwritten d.tables))
    (hnd : (d.inl ++ d.refs).Nodup)
    (hgroups : ∀ g ∈ d.groups, NameOK g.1 ∧ g.2.Nodup ∧ ∀ i ∈ g.2, i < d.tables.length)
    (hgnames : d.groups.Pairwise (fun a b => a.1 ≠ b.1))
    (hsticky : ∀ s ∈ d.sticky, s.name ≠ [] ∧ s.name.all isNameChar = true ∧ Plain s.text ∧ hasTriple s.text = false
      ∧ norm s.text = s.text)
    (hproject : ∀ p ∈ d.project.toList, ProjectOK p.1 p.2) :
    ∃ text, Dbml.renderDb (d.db flagForm ap) = .ok text ∧ Build.parse ap text = .ok (d.db flagForm ap) :=
  document_roundtrip flagForm ap d
    { enums := henums, enumNames := henames, tables := htabs, tablesNe := hne,
      colNames := fun t ht s hs => ((htabs t ht).2.1 s hs).name,
      resolvable := ⟨htn, hnodot, hcn, hcp⟩,
      noShadow := fun t ht s hs => resolveType_plain _ _ ((htabs t ht).2.1 s hs).type (by
        intro e he
        obtain ⟨e0, he0, rfl⟩ := List.mem_map.mp he
        exact hshadow t ht s hs e0 he0),
      refsIn := fun r hr => hin r (by simp [hr]), inlIn := fun r hr => hin r (by simp [hr]), inlKind := hkind,
      inlWritten := hwritten, refsNodup := hnd, groups := hgroups, groupNames := hgnames, sticky := hsticky, project := hproject }

/-- the rendered text of a small document of every covered kind (a test of the statement on one literal) -/
example : joinWith (lit "\n\n") (DocSpec.texts flagForm
      { enums := [(lit "status", [(lit "new", []), (lit "done", lit "it's over")])],
        tables := [{ name := lit "a", cols := [{ name := lit "id", type := lit "int", pk := true }], note := lit "the a's" },
                   { name := lit "b", cols := [{ name := lit "a id", type := lit "int", dflt := lit "1" }], comment := some (lit "child") }],
        refs := [{ kind := .manyToOne, t1 := 1, c1 := 0, t2 := 0, c2 := 0 }],
        groups := [(lit "g1", [1, 0])],
        sticky := [{ name := lit "todo", text := lit "check" }],
        project := some (lit "shop", [(lit "database_type", lit "PostgreSQL"), (lit "owner", lit "it's me")]) })
    = lit "Project \"shop\" {\n    database_type: 'PostgreSQL'\n    owner: 'it\\'s me'\n}\n\nEnum \"status\" {\n    \"new\"\n    \"done\" [note: 'it\\'s over']\n}\n\nTable \"a\" {\n    \"id\" int [pk]\n    Note {\n        'the a\\'s'\n    }\n}\n\n// child\nTable \"b\" {\n    \"a id\" int [default: 1]\n}\n\nRef {\n    \"b\".\"a id\" > \"a\".\"id\"\n}\n\nTableGroup \"g1\" {\n    \"b\"\n    \"a\"\n}\n\nNote todo {\n    'check'\n}" := by
  decide +kernel

/-- non-vacuity of the hypotheses on inline references: table `b` hosts `ref: > "a"."id"` on its first column and
    `ref: - "a"."id"` on its second; together with a standalone reference between the same columns of another kind -/
example :
    let d : FlagDoc :=
      { tables := [{ name := lit "a", cols := [{ name := lit "id", type := lit "int", pk := true }] },
                   { name := lit "b", cols := [{ name := lit "a id", type := lit "int", notNull := true,
                                                  irefs := [{ kind := .manyToOne, tn := lit "a", cn := lit "id" }] },
                                                { name := lit "x", type := lit "int",
                                                  irefs := [{ kind := .oneToOne, tn := lit "a", cn := lit "id" }] }] }],
        inl := [{ kind := .manyToOne, t1 := 1, c1 := 0, t2 := 0, c2 := 0 }, { kind := .oneToOne, t1 := 1, c1 := 1, t2 := 0, c2 := 0 }],
        refs := [{ kind := .oneToMany, t1 := 1, c1 := 0, t2 := 0, c2 := 0 }] }
    (d.tables.flatMap fun t => t.cols.flatMap fun s => s.irefs.map fun r => (t.name, s.name, r)) = d.inl.map (flagForm.iwritten d.tables)
      ∧ (∀ r ∈ d.inl, r.kind ≠ .manyToMany) ∧ (d.inl ++ d.refs).Nodup
      ∧ joinWith (lit "\n\n") (d.texts flagForm)
        = lit "Table \"a\" {\n    \"id\" int [pk]\n}\n\nTable \"b\" {\n    \"a id\" int [ref: > \"a\".\"id\", not null]\n    \"x\" int [ref: - \"a\".\"id\"]\n}\n\nRef {\n    \"b\".\"a id\" < \"a\".\"id\"\n}" := by
  decide +kernel

/-- non-vacuity of the hypothesis on table notes -/
example : TNoteOK (lit "the a's") := ⟨(by intro c hc; revert c; decide), (by decide), (by decide)⟩

end C02
end PyDBML
