/-
C02/C01 — the round trip of one table, generic in the FORM of its column lines.

A `ColForm σ` says how a column described by `s : σ` is written (`str`), what the character-level grammar reads
from that line (`parse`), what the build makes of it (`build`) and what the renderer writes for the result
(`render`).  `form_roundtrip` then carries any such form through the table rule, the document, the build and the
renderer once and for all; `C02Flags` instantiates it with columns that carry settings.
-/
import PyDBMLProofs.Props.C02Table
namespace PyDBML
namespace C02
open Lex Grammar Build

/-- an inline reference as a column's settings write it: its kind and the NAMES of the table and column it points to -/
structure IRefT where
  kind : RefKind
  tn : Str
  cn : Str
  deriving DecidableEq

/-- the blueprint `ref_inline` makes of it -/
def IRefT.bp (r : IRefT) : Bp.RefBp := { kind := r.kind, inline := true, table2 := some r.tn, col2 := some r.cn }

/-- what `render_inline_reference` writes for it -/
def IRefT.text (r : IRefT) : Str :=
  'r' :: 'e' :: 'f' :: ':' :: ' ' :: (r.kind.sym ++ ' ' :: '"' :: (r.tn ++ '"' :: '.' :: '"' :: (r.cn ++ ['"'])))

structure ColForm (σ : Type) where
  /-- the column as the renderer writes it: no indentation, no line break -/
  str : σ → Str
  bp : σ → Bp.ColBp
  col : σ → Column
  /-- what makes the column readable back, under a given value of the properties switch -/
  ok : Bool → σ → Prop
  quoted : ∀ s, ∃ r, str s = '"' :: r
  parse : ∀ (props : Bool) (c : Cur) (s : σ) (rest : Str),
    c.rest = ' ' :: ' ' :: ' ' :: ' ' :: (str s ++ '\n' :: rest) → c.pastEnd = false → ok props s →
    ∃ c', tableColumn props c = .ok (bp s) c' ∧ c'.rest = rest ∧ c'.pastEnd = false
  noTab : ∀ ap s, ok ap s → ∀ ch ∈ str s, ch ≠ '\t'
  lineOK : ∀ ap s, ok ap s → LineOK (str s)
  /-- the inline references the column declares, in the order written -/
  irefs : σ → List IRefT
  bp_refs : ∀ s, (bp s).refs = (irefs s).map IRefT.bp
  /-- whatever enums are declared, as long as the column's type does not name one of them -/
  build : ∀ ap (enums : List Enum) s, ok ap s → resolveTypePure enums (bp s).type = .plain (bp s).type →
    buildColumn enums (bp s) = .ok (col s)
  /-- in any database whose inline references of this column render as the ones the column declares -/
  render : ∀ (db : Db) (ti ci : Nat) (s : σ), ok db.allowProps s →
    (Dbml.inlineRefsOfColumn db ti ci).mapM (Dbml.renderInlineRef db) = .ok ((irefs s).map IRefT.text) →
    Dbml.renderColumn db ti ci (col s) = .ok (str s)

variable {σ : Type}

theorem ColForm.norefs (F : ColForm σ) (s : σ) (h : F.irefs s = []) : (F.bp s).refs = [] := by
  rw [F.bp_refs, h]; rfl

/-- a column that declares no inline reference, in a database that hosts none -/
theorem ColForm.render_plain (F : ColForm σ) (db : Db) (ti ci : Nat) (s : σ) (hok : F.ok db.allowProps s)
    (hni : ∀ r ∈ db.refs, r.inline = false) (hno : F.irefs s = []) : Dbml.renderColumn db ti ci (F.col s) = .ok (F.str s) := by
  apply F.render db ti ci s hok
  have hf : Dbml.inlineRefsOfColumn db ti ci = [] := by
    unfold Dbml.inlineRefsOfColumn
    rw [List.filter_eq_nil_iff]
    intro r hr
    simp [hni r hr]
  rw [hf, hno]
  rfl

/-- the body of the table: one indented line per column -/
def ColForm.text (F : ColForm σ) : List σ → Str
  | [] => []
  | s :: r => ' ' :: ' ' :: ' ' :: ' ' :: (F.str s ++ '\n' :: F.text r)

def ColForm.tableText (F : ColForm σ) (tn : Str) (cs : List σ) : Str :=
  'T' :: 'a' :: 'b' :: 'l' :: 'e' :: ' ' :: '"' :: (tn ++ '"' :: ' ' :: '{' :: '\n' :: (F.text cs ++ ['}']))

def ColForm.tableBp (F : ColForm σ) (tn : Str) (cs : List σ) : Bp.TableBp :=
  { name := tn, schema := lit "public", columns := cs.map F.bp }

def ColForm.table (F : ColForm σ) (tn : Str) (cs : List σ) : Table := { name := tn, columns := cs.map F.col }

def ColForm.allOK (F : ColForm σ) (ap : Bool) (cs : List σ) : Prop := ∀ s ∈ cs, F.ok ap s

/-- what may follow the column lines: blanks, then a character that begins neither a line break nor a comment -/
def EndOK (e : Str) : Prop :=
  ∃ k x r, e = List.replicate k ' ' ++ x :: r ∧ isWs x = false ∧ x ≠ '\n' ∧ x ≠ '/'

theorem endOK_brace (tail : Str) : EndOK ('}' :: tail) := ⟨0, '}', tail, rfl, by decide, by decide, by decide⟩

theorem ColForm.body_next (F : ColForm σ) (cs : List σ) (e : Str) (he : EndOK e) :
    ∃ k x r, F.text cs ++ e = List.replicate k ' ' ++ x :: r ∧ isWs x = false ∧ x ≠ '\n' ∧ x ≠ '/' := by
  cases cs with
  | nil => obtain ⟨k, x, r, h⟩ := he; exact ⟨k, x, r, by simpa [ColForm.text] using h⟩
  | cons s r =>
    obtain ⟨q, hq⟩ := F.quoted s
    exact ⟨4, '"', q ++ '\n' :: (F.text r ++ e), by simp [ColForm.text, hq, List.replicate],
      by decide, by decide, by decide⟩

theorem ColForm.skipNl_stay_body (F : ColForm σ) (c : Cur) (cs : List σ) (e : Str) (he : EndOK e)
    (hc : c.rest = F.text cs ++ e) : skipNl c = .ok () c := by
  obtain ⟨k, x, r, he, hw, h1, h2⟩ := F.body_next cs e he
  have hN : Next c x r := skipWs_rest_spaces c k x r (by rw [hc, he]) hw
  obtain ⟨q1, q2⟩ := quiet_of_next c x r hN h1 h2
  exact skipNl_stay c q1 q2

theorem ColForm.tableElement_col (F : ColForm σ) (props : Bool) (c : Cur) (s : σ) (cs : List σ) (e : Str) (he : EndOK e)
    (hc : c.rest = F.text (s :: cs) ++ e) (hp : c.pastEnd = false) (hs : F.ok props s) :
    ∃ c', tableElement props c = .ok (TblElem.column (F.bp s)) c'
      ∧ c'.rest = F.text cs ++ e ∧ c'.pastEnd = false := by
  have hs0 : skipNl c = .ok () c := F.skipNl_stay_body c (s :: cs) e he hc
  obtain ⟨c1, hcol, hr1, hp1⟩ := F.parse props c s (F.text cs ++ e) (by rw [hc]; simp [ColForm.text]) hp hs
  have hs1 : skipNl c1 = .ok () c1 := F.skipNl_stay_body c1 cs e he hr1
  refine ⟨c1, ?_, hr1, hp1⟩
  unfold tableElement
  simp only [bind, pbind, hs0, alt, hcol, hs1, pure, ppure]

theorem ColForm.text_cons_length (F : ColForm σ) (s : σ) (cs : List σ) :
    (F.text cs).length + 5 ≤ (F.text (s :: cs)).length := by
  simp [ColForm.text] <;> omega

/-- what the repetition over the body does once the column lines are read: it reads `els` and stops at the brace -/
def BodyEnd (props : Bool) (e : Str) (els : List TblElem) (tail : Str) : Prop :=
  ∀ (fuel : Nat) (c : Cur), 1 < fuel → c.rest = e → c.pastEnd = false →
    ∃ c', many (tableElement props) fuel c = .ok els c' ∧ c'.rest = '}' :: tail ∧ c'.pastEnd = false

theorem bodyEnd_brace (props : Bool) (tail : Str) : BodyEnd props ('}' :: tail) [] tail := by
  intro fuel c hf hc hp
  obtain ⟨f, rfl⟩ : ∃ f, fuel = f + 1 := ⟨fuel - 1, by omega⟩
  refine ⟨c, ?_, hc, hp⟩
  rw [many]
  simp [tableElement_fail_brace props c tail hc]

theorem ColForm.many_body (F : ColForm σ) (props : Bool) (cs : List σ) (e tail : Str) (els : List TblElem)
    (he : EndOK e) (hE : BodyEnd props e els tail) (hcs : F.allOK props cs) :
    ∀ (fuel : Nat) (c : Cur), cs.length + 1 < fuel → c.rest = F.text cs ++ e → c.pastEnd = false →
      ∃ c', many (tableElement props) fuel c = .ok ((cs.map F.bp).map TblElem.column ++ els) c'
        ∧ c'.rest = '}' :: tail ∧ c'.pastEnd = false := by
  induction cs with
  | nil =>
    intro fuel c hf hc hp
    simpa using hE fuel c (by simpa using hf) (by simpa [ColForm.text] using hc) hp
  | cons s r ih =>
    intro fuel c hf hc hp
    obtain ⟨f, rfl⟩ : ∃ f, fuel = f + 1 := ⟨fuel - 1, by simp at hf; omega⟩
    obtain ⟨c1, hel, hr1, hp1⟩ := F.tableElement_col props c s r e he hc hp (hcs s (by simp))
    obtain ⟨c2, hm, hr2, hp2⟩ := ih (fun q hq => hcs q (by simp [hq])) f c1 (by simp at hf; omega) hr1 hp1
    refine ⟨c2, ?_, hr2, hp2⟩
    have hlen : c1.rest.length ≠ c.rest.length := by
      have := F.text_cons_length s r
      rw [hr1, hc]; simp only [List.length_append]; omega
    rw [many]
    simp only [hel, hlen, decide_false, Bool.false_and, Bool.false_eq_true, ↓reduceIte, hm, List.map_cons, List.cons_append]

theorem ColForm.text_length (F : ColForm σ) (cs : List σ) : cs.length ≤ (F.text cs).length := by
  induction cs with
  | nil => simp [ColForm.text]
  | cons s r ih => have := F.text_cons_length s r; simp only [List.length_cons]; omega

theorem filterMap_colsG (bs : List Bp.ColBp) (f : TblElem → Option Bp.ColBp)
    (h : ∀ b, f (TblElem.column b) = some b) : (bs.map TblElem.column).filterMap f = bs := by
  induction bs with
  | nil => rfl
  | cons b r ih => simp [h, ih]

theorem filterMap_cols_noneG {β} (bs : List Bp.ColBp) (f : TblElem → Option β)
    (h : ∀ b, f (TblElem.column b) = none) : (bs.map TblElem.column).filterMap f = [] := by
  induction bs with
  | nil => rfl
  | cons b r ih => simp [h, ih]

theorem foldl_colsG {β} (bs : List Bp.ColBp) (f : β → TblElem → β)
    (h : ∀ (a : β) b, f a (TblElem.column b) = a) (a : β) : (bs.map TblElem.column).foldl f a = a := by
  induction bs generalizing a with
  | nil => rfl
  | cons b r ih => simp [h, ih]

/-- the table rule on the rendered text of one table at the end of the document -/
theorem ColForm.tableRule_ok (F : ColForm σ) (props : Bool) (c : Cur) (tn : Str) (cs : List σ)
    (hc : c.rest = F.tableText tn cs) (hp : c.pastEnd = false) (hprev : c.prev = none)
    (htn : NameOK tn) (hcs : F.allOK props cs) (hne : cs ≠ []) :
    ∃ c', tableRule props c = .ok (F.tableBp tn cs) c' ∧ c'.rest = [] ∧ c'.pastEnd = true := by
  have hN : Next c 'T' _ := skipWs_rest_head c 'T' _ (by rw [hc]; rfl) (by decide)
  obtain ⟨q1, q2⟩ := quiet_of_next c 'T' _ hN (by decide) (by decide)
  have hb : cBefore c = .ok [] c := cBefore_stay c q1 q2
  have hpv : (skipWs c).prev = none := by
    rw [skipWs_prev_head c 'T' _ (by rw [hc]; rfl) (by decide)]; exact hprev
  obtain ⟨c1, hk, hr1, hp1⟩ := ckw_ok "table" c ['T', 'a', 'b', 'l', 'e']
    (' ' :: '"' :: (tn ++ '"' :: ' ' :: '{' :: '\n' :: (F.text cs ++ ['}']))) hN (by decide)
    (by simp [startsWithCaseless]; decide) hp hpv (by intro x hx; simp at hx; subst hx; decide)
  have hN1 : (skipWs c1).rest = '"' :: (tn ++ '"' :: ' ' :: '{' :: '\n' :: (F.text cs ++ ['}'])) :=
    skipWs_rest_spaces c1 1 '"' _ (by rw [hr1]; rfl) (by decide)
  obtain ⟨c2, hnm, hr2, hp2⟩ := name_quoted_ok c1 tn _ hN1 htn hp1
  have hN2 : Next c2 '{' ('\n' :: (F.text cs ++ ['}'])) := skipWs_rest_spaces c2 1 '{' _ (by rw [hr2]; rfl) (by decide)
  have hdot : sym "." c2 = .fail := sym_fail "." c2 _ _ hN2 (by simp [startsWith])
  have htname : tableName c1 = .ok (none, tn) c2 := by
    unfold tableName alt
    simp only [bind, pbind, hnm, hdot, pure, ppure]
  have hal : opt aliasRule c2 = .ok none c2 := by
    unfold opt; rw [aliasRule_fail c2 '{' _ hN2 (by decide)]
  have hst : opt tableSettings c2 = .ok none c2 := by
    unfold opt tableSettings
    simp only [bind, pbind, sym_fail "[" c2 _ _ hN2 (by simp [startsWith])]
  obtain ⟨q3, q4⟩ := quiet_of_next c2 '{' _ hN2 (by decide) (by decide)
  have hs2 : skipNl c2 = .ok () c2 := skipNl_stay c2 q3 q4
  obtain ⟨c3, hbr, hr3, hp3⟩ := sym_ok "{" '{' rfl c2 _ hN2 hp2
  have hN3 : Next c3 '\n' (F.text cs ++ ['}']) := skipWs_rest_head c3 '\n' _ hr3 (by decide)
  obtain ⟨c4, hs3, hr4, hp4⟩ := skipNl_one c3 (F.text cs ++ ['}']) hN3 hp3 (by
    intro d hd _
    obtain ⟨k, x, r, he, hw, h1, h2⟩ := F.body_next cs ['}'] (endOK_brace [])
    have : Next d x r := skipWs_rest_spaces d k x r (by rw [hd, he]) hw
    exact quiet_of_next d x r this h1 h2)
  have hs4 : skipNl c4 = .ok () c4 := F.skipNl_stay_body c4 cs ['}'] (endOK_brace []) hr4
  obtain ⟨s0, ps, rfl⟩ : ∃ s0 ps, cs = s0 :: ps := by
    cases cs with
    | nil => exact absurd rfl hne
    | cons a as => exact ⟨a, as, rfl⟩
  obtain ⟨c5, hel, hr5, hp5⟩ := F.tableElement_col props c4 s0 ps ['}'] (endOK_brace []) hr4 hp4 (hcs s0 (by simp))
  have hel3 : tableElement props c3 = .ok (TblElem.column (F.bp s0)) c5 := by
    rw [tableElement_skip props c3 c4 hs3 hs4]; exact hel
  have hfuel : ps.length + 1 < c3.rest.length + 1 := by
    rw [hr3]
    have h1 := F.text_length ps
    have h2 := F.text_cons_length s0 ps
    simp only [List.length_cons, List.length_append]; omega
  obtain ⟨c6, hm, hr6, hp6⟩ := F.many_body props ps ['}'] [] [] (endOK_brace []) (bodyEnd_brace props []) (fun q hq => hcs q (by simp [hq])) (c3.rest.length + 1) c5 hfuel hr5 hp5
  have hmany : manyF (tableElement props) c3 = .ok (((s0 :: ps).map F.bp).map TblElem.column) c6 := by
    unfold manyF fuelOf
    have hlen : c5.rest.length ≠ c3.rest.length := by
      have h2 := F.text_cons_length s0 ps
      rw [hr5, hr3]; simp only [List.length_cons, List.length_append]; omega
    rw [many]
    simp only [hel3, hlen, decide_false, Bool.false_and, Bool.false_eq_true, ↓reduceIte, hm, List.map_cons, List.append_nil]
  have hN6 : Next c6 '}' [] := skipWs_rest_head c6 '}' _ hr6 (by decide)
  obtain ⟨q5, q6⟩ := quiet_of_next c6 '}' _ hN6 (by decide) (by decide)
  have hs6 : skipNl c6 = .ok () c6 := skipNl_stay c6 q5 q6
  obtain ⟨c7, hcl, hr7, hp7⟩ := sym_ok "}" '}' rfl c6 _ hN6 hp6
  have hN7 : (skipWs c7).rest = [] := skipWs_rest_nil c7 hr7
  obtain ⟨c8, hle, hr8, hp8⟩ := lineEnd_eof c7 hN7 hp7
  have hend : endRule c7 = .ok () c8 := by
    unfold endRule alt
    simp only [bind, pbind, manyF_fail comment c7 (comment_fail_nil c7 hN7), hle]
  refine ⟨c8, ?_, hr8, hp8⟩
  unfold tableRule
  simp only [bind, pbind, hb, hk, htname, hal, hst, hs2, hbr, cut, hmany, hs6, hcl, hend]
  rw [filterMap_colsG _ _ (fun _ => rfl)]
  rw [filterMap_cols_noneG _ _ (fun _ => rfl)]
  rw [filterMap_cols_noneG _ _ (fun _ => rfl)]
  rw [foldl_colsG _ _ (fun _ _ => rfl)]
  simp [ColForm.tableBp, joinBefore, pure, ppure]

/-! ### the document and the build -/

theorem ColForm.text_no_tab (F : ColForm σ) (ap : Bool) (cs : List σ) (hcs : F.allOK ap cs) : ∀ c ∈ F.text cs, c ≠ '\t' := by
  induction cs with
  | nil => intro c hc; simp [ColForm.text] at hc
  | cons s r ih =>
    intro c hc
    have e : F.text (s :: r) = [' ', ' ', ' ', ' '] ++ F.str s ++ ['\n'] ++ F.text r := by simp [ColForm.text]
    rw [e] at hc
    simp only [List.mem_append] at hc
    rcases hc with ((h | h) | h) | h
    · exact (by decide : ∀ c ∈ [' ', ' ', ' ', ' '], c ≠ '\t') c h
    · exact F.noTab ap s (hcs s (by simp)) c h
    · exact (by decide : ∀ c ∈ ['\n'], c ≠ '\t') c h
    · exact ih (fun q hq => hcs q (by simp [hq])) c h

theorem ColForm.tableText_no_tab (F : ColForm σ) (ap : Bool) (tn : Str) (cs : List σ) (htn : NameOK tn) (hcs : F.allOK ap cs) :
    ∀ c ∈ F.tableText tn cs, c ≠ '\t' := by
  intro c hc
  have e : F.tableText tn cs = ['T', 'a', 'b', 'l', 'e', ' ', '"'] ++ tn ++ ['"', ' ', '{', '\n'] ++ F.text cs ++ ['}'] := by
    simp [ColForm.tableText]
  rw [e] at hc
  simp only [List.mem_append] at hc
  rcases hc with (((h | h) | h) | h) | h
  · exact (by decide : ∀ c ∈ ['T', 'a', 'b', 'l', 'e', ' ', '"'], c ≠ '\t') c h
  · exact (htn c h).2.2.2
  · exact (by decide : ∀ c ∈ ['"', ' ', '{', '\n'], c ≠ '\t') c h
  · exact F.text_no_tab ap cs hcs c h
  · exact (by decide : ∀ c ∈ ['}'], c ≠ '\t') c h

theorem ColForm.parseDoc_table (F : ColForm σ) (ap : Bool) (tn : Str) (cs : List σ) (htn : NameOK tn)
    (hcs : F.allOK ap cs) (hne : cs ≠ []) :
    ∃ c', parseDoc ap (F.tableText tn cs) = .ok [Bp.Elem.table (F.tableBp tn cs)] c' := by
  unfold parseDoc expandTabs
  rw [expandTabsAux_plain 0 _ (F.tableText_no_tab ap tn cs htn hcs)]
  let c0 : Cur := { rest := F.tableText tn cs }
  obtain ⟨c8, hst, hr8, hp8⟩ := F.tableRule_ok ap c0 tn cs rfl rfl rfl htn hcs hne
  have hel : element ap c0 = .ok (Bp.Elem.table (F.tableBp tn cs)) c8 := by
    unfold element alt
    simp only [bind, pbind, hst, pure, ppure]
  have hmany : manyF (element ap) c0 = .ok [Bp.Elem.table (F.tableBp tn cs)] c8 := by
    unfold manyF fuelOf
    have hlen : c8.rest.length ≠ c0.rest.length := by
      rw [hr8]; simp [c0, ColForm.tableText]
    rw [many]
    simp only [hel, hlen, decide_false, Bool.false_and, Bool.false_eq_true, ↓reduceIte]
    rw [many]
    simp [element_fail_pastEnd ap c8 hp8]
  obtain ⟨c9, hse⟩ := stringEnd_eof c8 (skipWs_rest_nil c8 hr8)
  refine ⟨c9, ?_⟩
  show document ap c0 = _
  unfold document
  simp only [bind, pbind, hmany, skipNl_pastEnd c8 hp8, hse, pure, ppure]

theorem mapM_ok_map_mem {α β ε} (f : α → Except ε β) (g : α → β) :
    ∀ l : List α, (∀ a ∈ l, f a = .ok (g a)) → l.mapM f = .ok (l.map g) := by
  intro l
  induction l with
  | nil => intro _; rfl
  | cons x xs ih =>
    intro h
    rw [List.mapM_cons, h x (by simp), ih (fun a ha => h a (by simp [ha]))]; rfl

theorem ColForm.build_table (F : ColForm σ) (ap : Bool) (tn : Str) (cs : List σ) (hcs : F.allOK ap cs)
    (hno : ∀ s ∈ cs, F.irefs s = []) :
    buildDatabase ap [Bp.Elem.table (F.tableBp tn cs)] = .ok { tables := [F.table tn cs], allowProps := ap } := by
  have hcols : (cs.map F.bp).mapM (buildColumn []) = .ok (cs.map F.col) := by
    rw [List.mapM_map]
    exact mapM_ok_map_mem _ _ cs (fun s hs => F.build ap [] s (hcs s hs) rfl)
  have ht : buildTable [] (F.tableBp tn cs) = .ok (F.table tn cs) := by
    simp [buildTable, ColForm.tableBp, buildNote, hcols, ColForm.table, bind, Except.bind, pure, Except.pure]
  have hrefs : refBlueprints [Bp.Elem.table (F.tableBp tn cs)] = [] := by
    simp only [refBlueprints, ColForm.tableBp, List.flatMap_cons, List.flatMap_nil, List.append_nil, List.flatMap_map,
      List.flatMap_eq_nil_iff]
    intro s hs
    simp [F.norefs s (hno s hs)]
  simp [buildDatabase, enumBps, tableBps, groupBps, stickyBps, projectBp, hrefs, buildProject, tableStep,
    ht, addTable, hasKey, ColForm.table, bind, Except.bind, pure, Except.pure]

/-! ### the rendering -/

theorem range_mapM_form {α β} (f : σ → α) (why : String) (h : σ → β) :
    ∀ (cs : List σ) (g : Nat → α → R β), (∀ i s, s ∈ cs → g i (f s) = .ok (h s)) →
    (List.range (cs.map f).length).mapM (fun i => do let x ← getD? (cs.map f) i why; g i x) = .ok (cs.map h) := by
  intro cs
  induction cs with
  | nil => intro g _; rfl
  | cons s r ih =>
    intro g hg
    have hs : (fun i => getD? (f s :: r.map f) i why >>= fun y => g i y) ∘ Nat.succ
        = fun i => getD? (r.map f) i why >>= fun y => g (i + 1) y := by
      funext i; simp [getD?, Function.comp]
    have h0 : (getD? (f s :: r.map f) 0 why >>= fun y => g 0 y) = .ok (h s) := by
      have := hg 0 s (by simp)
      simpa [getD?, bind, Except.bind] using this
    rw [List.map_cons, List.length_cons, List.range_succ_eq_map, List.mapM_cons, List.mapM_map, hs,
      ih (fun i => g (i + 1)) (fun i t ht => hg (i + 1) t (by simp [ht])), h0]
    rfl

/-- the same with the hypothesis by position -/
theorem range_mapM_form_pos {α β} (f : σ → α) (why : String) (h : σ → β) :
    ∀ (cs : List σ) (g : Nat → α → R β), (∀ i s, cs[i]? = some s → g i (f s) = .ok (h s)) →
    (List.range (cs.map f).length).mapM (fun i => do let x ← getD? (cs.map f) i why; g i x) = .ok (cs.map h) := by
  intro cs
  induction cs with
  | nil => intro g _; rfl
  | cons s r ih =>
    intro g hg
    have hs : (fun i => getD? (f s :: r.map f) i why >>= fun y => g i y) ∘ Nat.succ
        = fun i => getD? (r.map f) i why >>= fun y => g (i + 1) y := by
      funext i; simp [getD?, Function.comp]
    have h0 : (getD? (f s :: r.map f) 0 why >>= fun y => g 0 y) = .ok (h s) := by
      have := hg 0 s (by simp)
      simpa [getD?, bind, Except.bind] using this
    rw [List.map_cons, List.length_cons, List.range_succ_eq_map, List.mapM_cons, List.mapM_map, hs,
      ih (fun i => g (i + 1)) (fun i t ht => hg (i + 1) t (by simpa using ht)), h0]
    rfl

theorem ColForm.text_flatMap (F : ColForm σ) (cs : List σ) :
    F.text cs = (cs.map F.str).flatMap fun l => [' ', ' ', ' ', ' '] ++ l ++ ['\n'] := by
  induction cs with
  | nil => rfl
  | cons s r ih => simp [ColForm.text, ih]

theorem ColForm.renderDb_table (F : ColForm σ) (ap : Bool) (tn : Str) (cs : List σ) (hcs : F.allOK ap cs) (hne : cs ≠ [])
    (hno : ∀ s ∈ cs, F.irefs s = []) :
    Dbml.renderDb { tables := [F.table tn cs], allowProps := ap } = .ok (F.tableText tn cs) := by
  have hcols : (List.range (F.table tn cs).columns.length).mapM (fun ci => do
      let c ← getD? (F.table tn cs).columns ci "column position"
      Dbml.renderColumn { tables := [F.table tn cs], allowProps := ap } 0 ci c) = .ok (cs.map F.str) :=
    range_mapM_form F.col "column position" F.str cs
      (fun ci c => Dbml.renderColumn { tables := [F.table tn cs], allowProps := ap } 0 ci c)
      (fun i s hs => F.render_plain { tables := [F.table tn cs], allowProps := ap } 0 i s (hcs s hs) (by simp) (hno s hs))
  have hbody : Dbml.indent4 (joinNL (cs.map F.str)) ++ ['\n'] = F.text cs := by
    rw [F.text_flatMap]
    apply indent4_lines
    · simpa using hne
    · intro l hl
      obtain ⟨s, hs, rfl⟩ := List.mem_map.mp hl
      exact F.lineOK ap s (hcs s hs)
    · intro l hl
      obtain ⟨s, hs, rfl⟩ := List.mem_map.mp hl
      obtain ⟨q, hq⟩ := F.quoted s
      exact ⟨'"', q, hq, by decide⟩
  have ht : Dbml.renderTable { tables := [F.table tn cs], allowProps := ap } 0 = .ok (F.tableText tn cs) := by
    unfold Dbml.renderTable
    have hg : getD? [F.table tn cs] 0 "table position" = .ok (F.table tn cs) := rfl
    rw [hg]
    show Dbml.renderTableBody _ 0 (F.table tn cs) = _
    unfold Dbml.renderTableBody
    rw [hcols]
    simp [ColForm.table, truthy, Dbml.optComment, qualName, bind, Except.bind, pure, Except.pure, ColForm.tableText, lit] at hbody ⊢
    rw [← hbody]
    simp
  unfold Dbml.renderDb Dbml.renderProjectList
  simp [bind, Except.bind, pure, Except.pure, joinWith, ht, List.range_succ]

/-- **C02 for one table whose columns are written in any form that is read back** -/
theorem form_roundtrip (F : ColForm σ) (ap : Bool) (tn : Str) (cs : List σ)
    (htn : NameOK tn) (hcs : F.allOK ap cs) (hne : cs ≠ []) (hno : ∀ s ∈ cs, F.irefs s = []) :
    ∃ text, Dbml.renderDb { tables := [F.table tn cs], allowProps := ap } = .ok text
      ∧ Build.parse ap text = .ok { tables := [F.table tn cs], allowProps := ap } := by
  refine ⟨F.tableText tn cs, F.renderDb_table ap tn cs hcs hne hno, ?_⟩
  obtain ⟨c', hp⟩ := F.parseDoc_table ap tn cs htn hcs hne
  unfold Build.parse
  have hbom : removeBom (F.tableText tn cs) = F.tableText tn cs := by simp [removeBom, ColForm.tableText]
  rw [hbom, hp]
  simp [F.build_table ap tn cs hcs hno]

end C02
end PyDBML
