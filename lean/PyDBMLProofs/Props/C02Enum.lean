/-
C02/C01 — the round trip of an enum with any positive number of items, end to end: `enum_roundtrip_partial`.
Partial: one enum in schema public, items with quoted names, no notes, no comments.
-/
import PyDBMLProofs.Props.C02Tables
namespace PyDBML
namespace C02
open Lex Grammar Build

/-! ### the items of an enum body: LF + four blanks + quoted name, each -/

def itemLine (n : Str) : Str := '\n' :: ' ' :: ' ' :: ' ' :: ' ' :: '"' :: (n ++ ['"'])

def itemsText : List Str → Str
  | [] => []
  | n :: r => itemLine n ++ itemsText r

def plainItem (n : Str) : Bp.EnumItemBp := { name := n }

/-- after an item: another item line or the closing line -/
theorem items_next (ns : List Str) (tail : Str) :
    ∃ r, itemsText ns ++ '\n' :: '}' :: tail = '\n' :: r
      ∧ ∀ d : Cur, d.rest = r → d.pastEnd = false → sym "\n" d = .fail ∧ comment d = .fail := by
  cases ns with
  | nil =>
    refine ⟨'}' :: tail, rfl, ?_⟩
    intro d hd _
    have : Next d '}' tail := skipWs_rest_head d '}' _ hd (by decide)
    exact quiet_of_next d '}' _ this (by decide) (by decide)
  | cons n r =>
    refine ⟨' ' :: ' ' :: ' ' :: ' ' :: '"' :: (n ++ ['"'] ++ (itemsText r ++ '\n' :: '}' :: tail)), by simp [itemsText, itemLine], ?_⟩
    intro d hd _
    have : Next d '"' _ := skipWs_rest_spaces d 4 '"' _ (by rw [hd]; rfl) (by decide)
    exact quiet_of_next d '"' _ this (by decide) (by decide)

theorem enumSettings_fail (c : Cur) (h : sym "[" c = .fail) : enumSettings c = .fail := by
  unfold enumSettings; simp only [bind, pbind, h]

/-- one item -/
theorem enumItem_ok (c : Cur) (n : Str) (ns : List Str) (tail : Str)
    (hc : c.rest = itemLine n ++ (itemsText ns ++ '\n' :: '}' :: tail)) (hp : c.pastEnd = false) (hn : NameOK n) :
    ∃ c', enumItem c = .ok (plainItem n) c' ∧ c'.rest = itemsText ns ++ '\n' :: '}' :: tail ∧ c'.pastEnd = false := by
  obtain ⟨c0, hb, hr0, hp0, _⟩ := cBefore_nl c (' ' :: ' ' :: ' ' :: ' ' :: '"' :: (n ++ '"' :: (itemsText ns ++ '\n' :: '}' :: tail)))
    (by rw [hc]; simp [itemLine]) hp (by
      intro d hd _
      have : Next d '"' _ := skipWs_rest_spaces d 4 '"' _ (by rw [hd]; rfl) (by decide)
      exact quiet_of_next d '"' _ this (by decide) (by decide))
  have hN0 : (skipWs c0).rest = '"' :: (n ++ '"' :: (itemsText ns ++ '\n' :: '}' :: tail)) :=
    skipWs_rest_spaces c0 4 '"' _ (by rw [hr0]; rfl) (by decide)
  obtain ⟨c1, hnm, hr1, hp1⟩ := name_quoted_ok c0 n _ hN0 hn hp0
  obtain ⟨r, he, _⟩ := items_next ns tail
  have hN1 : Next c1 '\n' r := skipWs_rest_head c1 '\n' r (by rw [hr1, he]) (by decide)
  have hcm : cOpt c1 = .ok none c1 := by
    unfold cOpt opt
    rw [comment_fail c1 '\n' r hN1 (by decide)]
  have hst : opt enumSettings c1 = .ok none c1 := by
    unfold opt
    rw [enumSettings_fail c1 (sym_fail "[" c1 '\n' r hN1 (by simp [startsWith]))]
  refine ⟨c1, ?_, hr1, hp1⟩
  unfold enumItem
  simp only [bind, pbind, hb, hnm, hcm, hst, pure, ppure, plainItem, joinBefore]
  rfl

/-- before the closing line no item starts (and nothing is consumed) -/
theorem enumItem_fail_close (c : Cur) (tail : Str) (hc : c.rest = '\n' :: '}' :: tail) (hp : c.pastEnd = false) :
    enumItem c = .fail := by
  obtain ⟨c0, hb, hr0, hp0, _⟩ := cBefore_nl c ('}' :: tail) hc hp (by
    intro d hd _
    have : Next d '}' tail := skipWs_rest_head d '}' _ hd (by decide)
    exact quiet_of_next d '}' _ this (by decide) (by decide))
  have hN : Next c0 '}' tail := skipWs_rest_head c0 '}' _ hr0 (by decide)
  unfold enumItem
  simp only [bind, pbind, hb, name_fail c0 '}' tail hN (by decide) (by decide)]

theorem many_items (ns : List Str) (tail : Str) (hns : ∀ n ∈ ns, NameOK n) :
    ∀ (fuel : Nat) (c : Cur), ns.length < fuel → c.rest = itemsText ns ++ '\n' :: '}' :: tail → c.pastEnd = false →
      ∃ c', many enumItem fuel c = .ok (ns.map plainItem) c' ∧ c'.rest = '\n' :: '}' :: tail ∧ c'.pastEnd = false := by
  induction ns with
  | nil =>
    intro fuel c hf hc hp
    obtain ⟨f, rfl⟩ : ∃ f, fuel = f + 1 := ⟨fuel - 1, by simp at hf; omega⟩
    refine ⟨c, ?_, by simpa [itemsText] using hc, hp⟩
    rw [many]
    simp [enumItem_fail_close c tail (by simpa [itemsText] using hc) hp]
  | cons n r ih =>
    intro fuel c hf hc hp
    obtain ⟨f, rfl⟩ : ∃ f, fuel = f + 1 := ⟨fuel - 1, by simp at hf; omega⟩
    obtain ⟨c1, hel, hr1, hp1⟩ := enumItem_ok c n r tail (by rw [hc]; simp [itemsText]) hp (hns n (by simp))
    obtain ⟨c2, hm, hr2, hp2⟩ := ih (fun q hq => hns q (by simp [hq])) f c1 (by simp at hf; omega) hr1 hp1
    refine ⟨c2, ?_, hr2, hp2⟩
    have hlen : c1.rest.length ≠ c.rest.length := by
      rw [hr1, hc]; simp [itemsText, itemLine]; omega
    rw [many]
    simp only [hel, hlen, decide_false, Bool.false_and, Bool.false_eq_true, ↓reduceIte, hm, List.map_cons]

theorem itemsText_length (ns : List Str) : ns.length ≤ (itemsText ns).length := by
  induction ns with
  | nil => simp [itemsText]
  | cons n r ih => simp [itemsText, itemLine]; omega

/-! ### the enum rule on the rendered text -/

def enumText (en : Str) (ns : List Str) : Str :=
  'E' :: 'n' :: 'u' :: 'm' :: ' ' :: '"' :: (en ++ '"' :: ' ' :: '{' :: (itemsText ns ++ ['\n', '}']))

def plainEnumBp (en : Str) (ns : List Str) : Bp.EnumBp := { name := en, items := ns.map plainItem }

theorem enumName_ok (c : Cur) (en r : Str) (x : Char) (r' : Str) (hn : (skipWs c).rest = '"' :: (en ++ '"' :: r))
    (hr : r = ' ' :: x :: r') (hx : x ≠ '.') (hok : NameOK en) (hp : c.pastEnd = false) :
    ∃ c', enumName c = .ok (none, en) c' ∧ c'.rest = r ∧ c'.pastEnd = false := by
  obtain ⟨c1, hnm, hr1, hp1⟩ := name_quoted_ok c en r hn hok hp
  -- the first alternative reads the same name and then finds no dot
  have hsk : (skipWs (skipWs c)).rest = '"' :: (en ++ '"' :: r) := by rw [skipWs_idem]; exact hn
  obtain ⟨c1', hnm', hr1', hp1'⟩ := name_quoted_ok (skipWs c) en r hsk hok (by simpa using hp)
  have hraw : nameRaw (skipWs c) = .ok en c1' := by
    unfold nameRaw
    rw [hn]
    simp only [show isWs '"' = false by decide, Bool.false_eq_true, ↓reduceIte]
    exact hnm'
  have hdot : litRaw ['.'] c1' = .fail := litRaw_fail _ c1' (by rw [hr1', hr]; simp [startsWith])
  refine ⟨c1, ?_, hr1, hp1⟩
  unfold enumName alt
  simp only [bind, pbind, hraw, hdot, hnm, pure, ppure]

theorem enumRule_ok (c : Cur) (en : Str) (ns : List Str) (hc : c.rest = enumText en ns) (hp : c.pastEnd = false)
    (hen : NameOK en) (hns : ∀ n ∈ ns, NameOK n) (hne : ns ≠ []) :
    ∃ c', enumRule c = .ok (plainEnumBp en ns) c' ∧ c'.rest = [] ∧ c'.pastEnd = true := by
  have hN : Next c 'E' _ := skipWs_rest_head c 'E' _ (by rw [hc]; rfl) (by decide)
  obtain ⟨q1, q2⟩ := quiet_of_next c 'E' _ hN (by decide) (by decide)
  have hb : cBefore c = .ok [] c := cBefore_stay c q1 q2
  obtain ⟨c1, hk, hr1, hp1⟩ := clit_ok "enum" c ['E', 'n', 'u', 'm']
    (' ' :: '"' :: (en ++ '"' :: ' ' :: '{' :: (itemsText ns ++ ['\n', '}']))) hN (by decide)
    (by simp [startsWithCaseless]; decide) hp
  have hN1 : (skipWs c1).rest = '"' :: (en ++ '"' :: (' ' :: '{' :: (itemsText ns ++ ['\n', '}']))) :=
    skipWs_rest_spaces c1 1 '"' _ (by rw [hr1]; rfl) (by decide)
  obtain ⟨c2, hnm, hr2, hp2⟩ := enumName_ok c1 en _ '{' _ hN1 rfl (by decide) hen hp1
  have hN2 : Next c2 '{' (itemsText ns ++ ['\n', '}']) := skipWs_rest_spaces c2 1 '{' _ (by rw [hr2]; rfl) (by decide)
  obtain ⟨q3, q4⟩ := quiet_of_next c2 '{' _ hN2 (by decide) (by decide)
  have hs2 : skipNl c2 = .ok () c2 := skipNl_stay c2 q3 q4
  obtain ⟨c3, hbr, hr3, hp3⟩ := sym_ok "{" '{' rfl c2 _ hN2 hp2
  -- items
  obtain ⟨n0, nr, rfl⟩ : ∃ n0 nr, ns = n0 :: nr := by
    cases ns with
    | nil => exact absurd rfl hne
    | cons a as => exact ⟨a, as, rfl⟩
  obtain ⟨c4, hit, hr4, hp4⟩ := enumItem_ok c3 n0 nr [] (by rw [hr3]; simp [itemsText]) hp3 (hns n0 (by simp))
  have hfuel : nr.length < c4.rest.length + 2 := by
    rw [hr4]; have := itemsText_length nr; simp; omega
  obtain ⟨c5, hm, hr5, hp5⟩ := many_items nr [] (fun q hq => hns q (by simp [hq])) (c4.rest.length + 2) c4 hfuel hr4 hp4
  have hmany1 : many1 enumItem c3 = .ok ((n0 :: nr).map plainItem) c5 := by
    unfold many1 manyF fuelOf
    simp only [bind, pbind, hit, hm, pure, ppure, List.map_cons]
  -- closing line
  have hN5 : (skipWs c5).rest = '\n' :: ['}'] := skipWs_rest_head c5 '\n' _ hr5 (by decide)
  obtain ⟨c6, hle, hr6, hp6⟩ := lineEnd_nl c5 ['}'] hN5 hp5
  have hN6 : Next c6 '}' [] := skipWs_rest_head c6 '}' _ hr6 (by decide)
  obtain ⟨q5, q6⟩ := quiet_of_next c6 '}' _ hN6 (by decide) (by decide)
  have hs6 : skipNl c6 = .ok () c6 := skipNl_stay c6 q5 q6
  obtain ⟨c7, hcl, hr7, hp7⟩ := sym_ok "}" '}' rfl c6 _ hN6 hp6
  obtain ⟨c8, hend, hr8, hp8⟩ := endRule_eof c7 hr7 hp7
  refine ⟨c8, ?_, hr8, hp8⟩
  unfold enumRule
  simp only [bind, pbind, hb, hk, cut, hnm, hs2, hbr, hmany1, hle, hs6, hcl, hend, pure, ppure, plainEnumBp, joinBefore]
  rfl

/-! ### document, build, rendering -/

theorem itemsText_no_tab (ns : List Str) (hns : ∀ n ∈ ns, NameOK n) : ∀ c ∈ itemsText ns, c ≠ '\t' := by
  induction ns with
  | nil => intro c hc; simp [itemsText] at hc
  | cons n r ih =>
    intro c hc
    have e : itemsText (n :: r) = ['\n', ' ', ' ', ' ', ' ', '"'] ++ n ++ ['"'] ++ itemsText r := by
      simp [itemsText, itemLine]
    rw [e] at hc
    simp only [List.mem_append] at hc
    rcases hc with ((h | h) | h) | h
    · exact (by decide : ∀ c ∈ ['\n', ' ', ' ', ' ', ' ', '"'], c ≠ '\t') c h
    · exact (hns n (by simp) c h).2.2.2
    · exact (by decide : ∀ c ∈ ['"'], c ≠ '\t') c h
    · exact ih (fun q hq => hns q (by simp [hq])) c h

theorem enumText_no_tab (en : Str) (ns : List Str) (hen : NameOK en) (hns : ∀ n ∈ ns, NameOK n) :
    ∀ c ∈ enumText en ns, c ≠ '\t' := by
  intro c hc
  have e : enumText en ns = ['E', 'n', 'u', 'm', ' ', '"'] ++ en ++ ['"', ' ', '{'] ++ itemsText ns ++ ['\n', '}'] := by
    simp [enumText]
  rw [e] at hc
  simp only [List.mem_append] at hc
  rcases hc with (((h | h) | h) | h) | h
  · exact (by decide : ∀ c ∈ ['E', 'n', 'u', 'm', ' ', '"'], c ≠ '\t') c h
  · exact (hen c h).2.2.2
  · exact (by decide : ∀ c ∈ ['"', ' ', '{'], c ≠ '\t') c h
  · exact itemsText_no_tab ns hns c h
  · exact (by decide : ∀ c ∈ ['\n', '}'], c ≠ '\t') c h

theorem parseDoc_enum (ap : Bool) (en : Str) (ns : List Str) (hen : NameOK en) (hns : ∀ n ∈ ns, NameOK n) (hne : ns ≠ []) :
    ∃ c', parseDoc ap (enumText en ns) = .ok [Bp.Elem.enum (plainEnumBp en ns)] c' := by
  unfold parseDoc expandTabs
  rw [expandTabsAux_plain 0 _ (enumText_no_tab en ns hen hns)]
  let c0 : Cur := { rest := enumText en ns }
  obtain ⟨c8, hst, hr8, hp8⟩ := enumRule_ok c0 en ns rfl rfl hen hns hne
  have hN : Next c0 'E' _ := skipWs_rest_head c0 'E' _ rfl (by decide)
  obtain ⟨q1, q2⟩ := quiet_of_next c0 'E' _ hN (by decide) (by decide)
  have hb : cBefore c0 = .ok [] c0 := cBefore_stay c0 q1 q2
  have hel : element ap c0 = .ok (Bp.Elem.enum (plainEnumBp en ns)) c8 := by
    unfold element alt
    simp only [bind, pbind,
      tableRule_fail ap c0 hb (ckw_fail _ c0 _ _ hN (swc_ne 'E' _ "table" 't' _ rfl (by decide))),
      refRule_fail c0 hb (clit_fail _ c0 _ _ hN (swc_ne 'E' _ "ref" 'r' _ rfl (by decide))),
      hst, pure, ppure]
  have hmany : manyF (element ap) c0 = .ok [Bp.Elem.enum (plainEnumBp en ns)] c8 := by
    unfold manyF fuelOf
    have hlen : c8.rest.length ≠ c0.rest.length := by rw [hr8]; simp [c0, enumText]
    rw [many]
    simp only [hel, hlen, decide_false, Bool.false_and, Bool.false_eq_true, ↓reduceIte]
    rw [many]
    simp [element_fail_pastEnd ap c8 hp8]
  obtain ⟨c9, hse⟩ := stringEnd_eof c8 (skipWs_rest_nil c8 hr8)
  refine ⟨c9, ?_⟩
  show document ap c0 = _
  unfold document
  simp only [bind, pbind, hmany, skipNl_pastEnd c8 hp8, hse, pure, ppure]

def plainEnum (en : Str) (ns : List Str) : Enum := { name := en, schema := lit "public", items := ns.map fun n => { name := n } }

theorem build_enum (ap : Bool) (en : Str) (ns : List Str) :
    buildDatabase ap [Bp.Elem.enum (plainEnumBp en ns)] = .ok { enums := [plainEnum en ns], allowProps := ap } := by
  simp [buildDatabase, enumBps, tableBps, groupBps, stickyBps, projectBp, refBlueprints, buildProject, enumStep, buildEnum,
    addEnum, plainEnumBp, plainEnum, plainItem, buildEnumItem, noteText, bind, Except.bind, pure, Except.pure,
    List.map_map, Function.comp_def]

def itemStr (n : Str) : Str := '"' :: (n ++ ['"'])

theorem itemStr_ok (n : Str) (hn : NameOK n) : LineOK (itemStr n) := by
  intro c hc
  simp only [itemStr, List.mem_cons, List.mem_append, List.mem_singleton] at hc
  rcases hc with rfl | hc | hc
  · decide
  · exact (hn c hc).2.2.1
  · rcases hc with rfl | hc
    · decide
    · cases hc

theorem itemsText_flatMap (ns : List Str) :
    '\n' :: ((ns.map itemStr).flatMap fun l => [' ', ' ', ' ', ' '] ++ l ++ ['\n']) = itemsText ns ++ ['\n'] := by
  induction ns with
  | nil => rfl
  | cons n r ih =>
    simp only [List.map_cons, List.flatMap_cons, itemsText, itemLine, itemStr] at ih ⊢
    simp only [List.cons_append, List.append_assoc, List.nil_append, List.cons.injEq, true_and]
    rw [← ih]
    simp

theorem renderDb_enum (ap : Bool) (en : Str) (ns : List Str) (hns : ∀ n ∈ ns, NameOK n) (hne : ns ≠ []) :
    Dbml.renderDb { enums := [plainEnum en ns], allowProps := ap } = .ok (enumText en ns) := by
  have hitems : (plainEnum en ns).items.map Dbml.renderEnumItem = ns.map itemStr := by
    simp [plainEnum, Dbml.renderEnumItem, Dbml.optComment, itemStr, List.map_map, Function.comp_def]
  have hbody : Dbml.indent4 (joinNL (ns.map itemStr)) ++ ['\n'] = (ns.map itemStr).flatMap fun l => [' ', ' ', ' ', ' '] ++ l ++ ['\n'] := by
    apply indent4_lines
    · simpa using hne
    · intro l hl
      obtain ⟨n, hn, rfl⟩ := List.mem_map.mp hl
      exact itemStr_ok n (hns n hn)
    · intro l hl
      obtain ⟨n, hn, rfl⟩ := List.mem_map.mp hl
      exact ⟨'"', _, rfl, by decide⟩
  have he : Dbml.renderEnum (plainEnum en ns) = enumText en ns := by
    unfold Dbml.renderEnum
    rw [hitems]
    have h2 := itemsText_flatMap ns
    rw [← hbody] at h2
    have e1 : enumText en ns = lit "Enum " ++ ('"' :: en ++ ['"']) ++ lit " {" ++ ((itemsText ns ++ ['\n']) ++ ['}']) := by
      simp [enumText, lit]
    rw [e1, ← h2]
    simp [plainEnum, Dbml.optComment, qualName, lit]
  unfold Dbml.renderDb Dbml.renderProjectList
  simp [bind, Except.bind, pure, Except.pure, joinWith, he]

/-- **C02 for an enum, end to end**: a database holding one enum (schema public) with any positive number of
    items (quoted names, no notes, no comments) is rendered to DBML and parsed back to exactly the same database. -/
theorem enum_roundtrip_partial (ap : Bool) (en : Str) (ns : List Str) (hen : NameOK en) (hns : ∀ n ∈ ns, NameOK n)
    (hne : ns ≠ []) :
    ∃ text, Dbml.renderDb { enums := [plainEnum en ns], allowProps := ap } = .ok text
      ∧ Build.parse ap text = .ok { enums := [plainEnum en ns], allowProps := ap } := by
  refine ⟨enumText en ns, renderDb_enum ap en ns hns hne, ?_⟩
  obtain ⟨c', hp⟩ := parseDoc_enum ap en ns hen hns hne
  unfold Build.parse
  have hbom : removeBom (enumText en ns) = enumText en ns := by simp [removeBom, enumText]
  rw [hbom, hp]
  simp [build_enum]

end C02
end PyDBML
