/-
L6: the default SQL renderer (`pydbml/renderer/sql/default/*.py`), function for function, over the
value tree of `Model.lean`.
-/
import PyDBMLModel.Model
namespace PyDBML
namespace Sql

/-- `reorder_tables_for_sql`: the per-name count of hosted inline `>` / `<` references. -/
def hostName (tables : List Table) (r : Ref) : Option Str :=
  if r.inline then
    match r.kind with
    | .manyToOne => (tables[r.t1]?).map (·.name)
    | .oneToMany => (tables[r.t2]?).map (·.name)
    | _ => none
  else none

def countFor (tables : List Table) (refs : List Ref) (name : Str) : Nat :=
  (refs.filter fun r => hostName tables r = some name).length

/-- insertion into a list sorted by descending key, before the first element whose key is not
    larger (so that `foldr` gives a *stable* descending sort, like `sorted(..., reverse=True)`). -/
def insertDesc {α} (key : α → Nat) (x : α) : List α → List α
  | [] => [x]
  | y :: ys => if key y > key x then y :: insertDesc key x ys else x :: y :: ys

def sortDesc {α} (key : α → Nat) (l : List α) : List α := l.foldr (insertDesc key) []

/-- positions of `db.tables` in the order `reorder_tables_for_sql` returns them. -/
def reorderIdx (tables : List Table) (refs : List Ref) : List Nat :=
  sortDesc (fun i => match tables[i]? with
    | some t => countFor tables refs t.name
    | none => 0) (List.range tables.length)

def colNames (t : Table) (cols : List Nat) : R Str := do
  let names ← cols.mapM fun i => do
    let c ← getD? t.columns i "reference column position"
    pure ('"' :: c.name ++ ['"'])
  pure (joinWith (lit ", ") names)

def typeText (db : Db) (c : Column) : R Str :=
  match c.type with
  | .plain s => pure s
  | .enum i => do let e ← getD? db.enums i "enum position"; pure (qualName e.schema e.name)
  | .enumDetached s n => pure (qualName s n)

def hasCompositePk (t : Table) : Bool := (t.columns.filter (·.pk)).length > 1

def defaultSql : DefaultVal → Str
  | .int r => r
  | .float r => r
  | .bool true => lit "True"
  | .bool false => lit "False"
  | .str s => s
  | .expr t => '(' :: t ++ [')']

/-- `render_column`. `compositePk` is the owning table's `_has_composite_pk()`. -/
def renderColumn (db : Db) (compositePk : Bool) (c : Column) : R Str := do
  let ty ← typeText db c
  let comps : List Str :=
    ['"' :: c.name ++ ['"'], ty]
    ++ (if c.pk && !compositePk then [lit "PRIMARY KEY"] else [])
    ++ (if c.autoinc then [lit "AUTOINCREMENT"] else [])
    ++ (if c.unique then [lit "UNIQUE"] else [])
    ++ (if c.notNull then [lit "NOT NULL"] else [])
    ++ (match c.default with
        | some d => [lit "DEFAULT " ++ defaultSql d]
        | none => [])
  let cm := match c.comment with
    | some (x :: xs) => commentToSql (x :: xs)
    | _ => []
  pure (cm ++ joinWith [' '] comps)

def renderSubject (t : Table) : Subject → R Str
  | .col i => do let c ← getD? t.columns i "index subject position"; pure ('"' :: c.name ++ ['"'])
  | .expr e => pure ('(' :: e ++ [')'])
  | .raw s => pure s

def optComment (cm : Option Str) : Str :=
  match cm with
  | some (x :: xs) => commentToSql (x :: xs)
  | _ => []

/-- `render_index` (`ON` names the table as qualified as in its `CREATE TABLE`). -/
def renderIndex (t : Table) (ix : Index) : R Str := do
  let keys := joinWith (lit ", ") (← ix.subjects.mapM (renderSubject t))
  if ix.pk then
    pure (optComment ix.comment ++ lit "PRIMARY KEY (" ++ keys ++ [')'])
  else
    pure (optComment ix.comment ++ lit "CREATE "
      ++ (if ix.unique then lit "UNIQUE " else [])
      ++ lit "INDEX "
      ++ (if truthy ix.name then '"' :: ix.name.getD [] ++ lit "\" " else [])
      ++ lit "ON " ++ qualName t.schema t.name ++ [' ']
      ++ (if truthy ix.type then lit "USING " ++ upperAscii (ix.type.getD []) ++ [' '] else [])
      ++ '(' :: keys ++ lit ");")

def onClauses (r : Ref) : Str :=
  (if truthy r.onUpdate then lit " ON UPDATE " ++ upperAscii (r.onUpdate.getD []) else [])
  ++ (if truthy r.onDelete then lit " ON DELETE " ++ upperAscii (r.onDelete.getD []) else [])

def constraintText (r : Ref) : Str :=
  if truthy r.name then lit "CONSTRAINT \"" ++ r.name.getD [] ++ lit "\" " else []

/-- source / referenced side of a non-many-to-many reference: `>` and `-` keep the sides,
    `<` swaps them. -/
def refSides (r : Ref) : (Nat × List Nat) × (Nat × List Nat) :=
  match r.kind with
  | .oneToMany => ((r.t2, r.col2), (r.t1, r.col1))
  | _ => ((r.t1, r.col1), (r.t2, r.col2))

/-- `generate_inline_sql` followed by `.format(c=…)`. -/
def renderInlineRef (db : Db) (r : Ref) : R Str := do
  let ((st, sc), (rt, rc)) := refSides r
  let stT ← getD? db.tables st "ref table position"
  let rtT ← getD? db.tables rt "ref table position"
  let src ← colNames stT sc
  let dst ← colNames rtT rc
  let cm := optComment r.comment
  let full := qualName rtT.schema rtT.name
  pure (cm ++ constraintText r ++ lit "FOREIGN KEY (" ++ src ++ lit ") REFERENCES " ++ full
        ++ lit " (" ++ dst ++ [')'] ++ onClauses r)

/-- `generate_not_inline_sql` with the constraint text `c` filled in. -/
def notInlineParts (r : Ref) (srcFull src dstFull dst : Str) (c : Str) : Str :=
  optComment r.comment ++ lit "ALTER TABLE " ++ srcFull ++ lit " ADD " ++ c ++ lit "FOREIGN KEY (" ++ src
     ++ lit ") REFERENCES " ++ dstFull ++ lit " (" ++ dst ++ [')'] ++ onClauses r ++ [';']

def renderNotInlineRef (db : Db) (r : Ref) : R Str := do
  let ((st, sc), (rt, rc)) := refSides r
  let stT ← getD? db.tables st "ref table position"
  let rtT ← getD? db.tables rt "ref table position"
  let src ← colNames stT sc
  let dst ← colNames rtT rc
  pure (notInlineParts r (qualName stT.schema stT.name) src
      (qualName rtT.schema rtT.name) dst (constraintText r))

/-- `get_inline_references_for_sql`: the inline references whose key holder is table `ti`. -/
def inlineRefsFor (db : Db) (ti : Nat) (t : Table) : List Ref :=
  if t.abstract then []
  else db.refs.filter fun r =>
    r.inline &&
    (match r.kind with
     | .manyToOne | .oneToOne => r.t1 == ti
     | .oneToMany => r.t2 == ti
     | .manyToMany => false)

def indent2 (s : Str) : Str := textwrapIndent [' ', ' '] s

/-- `create_body` given the already rendered inline references. -/
def createBody (db : Db) (t : Table) (inlineRefs : List Str) : R Str := do
  let cpk := hasCompositePk t
  let cols ← t.columns.mapM fun c => do pure (indent2 (← renderColumn db cpk c))
  let pks ← (t.indexes.filter (·.pk)).mapM fun i => do pure (indent2 (← renderIndex t i))
  let refs := inlineRefs.map indent2
  let comp : List Str :=
    if cpk then
      [lit "  PRIMARY KEY (" ++
        joinWith (lit ", ") ((t.columns.filter (·.pk)).map fun c => '"' :: c.name ++ ['"']) ++ [')']]
    else []
  pure (joinWith (lit ",\n") (cols ++ pks ++ refs ++ comp))

def commentOn (entity : Str) (name : Str) (text : Str) : Str :=
  lit "COMMENT ON " ++ entity ++ lit " \"" ++ name ++ lit "\" IS '" ++ prepareTextForSql text ++ lit "';"

/-- `render_table` given the already rendered inline references. -/
def renderTableWith (db : Db) (t : Table) (inlineRefs : List Str) : R Str := do
  let body ← createBody db t inlineRefs
  let nonPk ← (t.indexes.filter (!·.pk)).mapM fun i => do pure ('\n' :: (← renderIndex t i))
  let comps : List Str :=
    (match t.comment with
     | some (x :: xs) => [commentToSql (x :: xs)]
     | _ => [])
    ++ [lit "CREATE TABLE " ++ qualName t.schema t.name ++ lit " (", body, lit ");"] ++ nonPk
  let main := joinNL comps
  let note := if t.note.isEmpty then [] else lit "\n\n" ++ commentOn (lit "TABLE") t.name t.note
  let colNotes := (t.columns.filter (!·.note.isEmpty)).flatMap fun c =>
    lit "\n\nCOMMENT ON COLUMN \"" ++ t.name ++ lit "\".\"" ++ c.name ++ lit "\" IS '"
      ++ prepareTextForSql c.note ++ lit "';"
  pure (main ++ note ++ colNotes)

/-- `render_table` for table number `ti` of the database. -/
def renderTable (db : Db) (ti : Nat) : R Str := do
  let t ← getD? db.tables ti "table position"
  let refs ← (inlineRefsFor db ti t).mapM (renderInlineRef db)
  renderTableWith db t refs

/-- `generate_many_to_many_sql`. -/
def renderManyToMany (db : Db) (r : Ref) : R Str := do
  let t1 ← getD? db.tables r.t1 "ref table position"
  let t2 ← getD? db.tables r.t2 "ref table position"
  let mk (t : Table) (i : Nat) : R Column := do
    let c ← getD? t.columns i "reference column position"
    pure { name := t.name ++ '_' :: c.name, type := c.type, notNull := true, pk := true }
  let jc1 ← r.col1.mapM (mk t1)
  let jc2 ← r.col2.mapM (mk t2)
  let jt : Table := { name := t1.name ++ '_' :: t2.name, schema := t1.schema,
                      columns := jc1 ++ jc2, abstract := true }
  let tableSql ← renderTableWith db jt []
  let jfull := qualName jt.schema jt.name
  let q (cs : List Column) : Str := joinWith (lit ", ") (cs.map fun c => '"' :: c.name ++ ['"'])
  let d1 ← colNames t1 r.col1
  let d2 ← colNames t2 r.col2
  let r1 := notInlineParts r jfull (q jc1) (qualName t1.schema t1.name) d1 []
  let r2 := notInlineParts r jfull (q jc2) (qualName t2.schema t2.name) d2 []
  pure (tableSql ++ lit "\n\n" ++ r1 ++ lit "\n\n" ++ r2)

/-- `render_reference` at database level (non-inline references only reach this). -/
def renderRefTop (db : Db) (r : Ref) : R Str :=
  if r.kind = .manyToMany then renderManyToMany db r
  else if r.inline then renderInlineRef db r
  else renderNotInlineRef db r

/-- `render_enum`. -/
def renderEnum (e : Enum) : Str :=
  let items := e.items.map fun i => indent2 (optComment i.comment ++ '\'' :: i.name ++ lit "',")
  let body := rstripSet (· = ',') (joinNL items)
  optComment e.comment ++ lit "CREATE TYPE " ++ qualName e.schema e.name ++ lit " AS ENUM (\n"
    ++ body ++ lit "\n);"

/-- `DefaultSQLRenderer.render_db`. -/
def renderDb (db : Db) : R Str := do
  let enums := db.enums.map renderEnum
  let tables ← (reorderIdx db.tables db.refs).mapM (renderTable db)
  let refs ← (db.refs.filter (!·.inline)).mapM (renderRefTop db)
  pure (joinWith (lit "\n\n") (enums ++ tables ++ refs))

end Sql
end PyDBML
