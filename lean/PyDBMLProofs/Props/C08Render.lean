/-
C08, second clause — whenever parsing returns a database, its renderings evaluate.
`WellLinked db`: every position stored in the content tree is in range.  `build_database` only returns
well-linked databases (`build_wellLinked`), and the SQL renderer is total on well-linked databases
(`sql_total`); together: `.sql` of a parsed database never raises, for any input text.
-/
import PyDBMLProofs.Props.C08
import PyDBMLProofs.Props.C18
namespace PyDBML
namespace C08
open Lex Build

def ColOK (enums : List Enum) (c : Column) : Prop := ∀ i, c.type = .enum i → i < enums.length

def TableOK (enums : List Enum) (t : Table) : Prop :=
  (∀ c ∈ t.columns, ColOK enums c)
  ∧ ∀ ix ∈ t.indexes, ∀ s ∈ ix.subjects, ∀ i, s = .col i → i < t.columns.length

def RefOK (tables : List Table) (r : Ref) : Prop :=
  ∃ t1 t2, tables[r.t1]? = some t1 ∧ tables[r.t2]? = some t2
    ∧ (∀ i ∈ r.col1, i < t1.columns.length) ∧ (∀ i ∈ r.col2, i < t2.columns.length)

structure WellLinked (db : Db) : Prop where
  tables : ∀ t ∈ db.tables, TableOK db.enums t
  refs : ∀ r ∈ db.refs, RefOK db.tables r
  groups : ∀ g ∈ db.groups, ∀ i ∈ g.items, i < db.tables.length

/-! ### what the build produces is well linked -/

theorem resolveTypePure_ok (enums : List Enum) (ty : Str) (i : Nat)
    (h : resolveTypePure enums ty = .enum i) : i < enums.length := by
  unfold resolveTypePure at h
  split at h
  · rename_i j hj
    cases h
    exact (List.findIdx?_eq_some_iff_getElem.mp hj).1
  · cases h

theorem buildColumn_ok (enums : List Enum) (cb : Bp.ColBp) (c : Column) (h : buildColumn enums cb = .ok c) :
    ColOK enums c := by
  unfold buildColumn at h
  obtain ⟨d, _, h⟩ := C06.bind_ok _ _ _ h
  obtain ⟨ty, hty, h⟩ := C06.bind_ok _ _ _ h
  obtain ⟨n, _, h⟩ := C06.bind_ok _ _ _ h
  simp only [pure, Except.pure, Except.ok.injEq] at h
  subst h
  simp only [resolveType, pure, Except.pure, Except.ok.injEq] at hty
  subst hty
  intro i hi
  exact resolveTypePure_ok _ _ _ hi

theorem buildIndex_ok (cols : List Column) (ib : Bp.IdxBp) (ix : Index) (h : buildIndex cols ib = .ok ix) :
    ∀ s ∈ ix.subjects, ∀ i, s = .col i → i < cols.length := by
  unfold buildIndex at h
  obtain ⟨n, _, h⟩ := C06.bind_ok _ _ _ h
  obtain ⟨ss, hss, h⟩ := C06.bind_ok _ _ _ h
  simp only [pure, Except.pure, Except.ok.injEq] at h
  subst h
  refine C05.mapM_all _ (fun s => ∀ i, s = Subject.col i → i < cols.length) ?_ _ _ hss
  intro sb s hs i hi
  split at hs
  · simp only [pure, Except.pure, Except.ok.injEq] at hs; subst hs; cases hi
  · split at hs
    · rename_i j hj
      simp only [pure, Except.pure, Except.ok.injEq] at hs
      subst hs
      cases hi
      exact (List.findIdx?_eq_some_iff_getElem.mp hj).1
    · simp [throw, throwThe, MonadExceptOf.throw] at hs

theorem buildTable_ok (enums : List Enum) (tb : Bp.TableBp) (t : Table) (h : buildTable enums tb = .ok t) :
    TableOK enums t := by
  unfold buildTable at h
  obtain ⟨n, _, h⟩ := C06.bind_ok _ _ _ h
  obtain ⟨cols, hcols, h⟩ := C06.bind_ok _ _ _ h
  obtain ⟨idx, hidx, h⟩ := C06.bind_ok _ _ _ h
  simp only [pure, Except.pure, Except.ok.injEq] at h
  subst h
  refine ⟨?_, ?_⟩
  · exact C05.mapM_all _ (ColOK enums) (fun a b => buildColumn_ok enums a b) _ _ hcols
  · exact C05.mapM_all _ (fun ix => ∀ s ∈ ix.subjects, ∀ i, s = Subject.col i → i < cols.length)
      (fun a b => buildIndex_ok cols a b) _ _ hidx

theorem build_wellLinked (ap : Bool) (es : List Bp.Elem) (db : Db)
    (h : buildDatabase ap es = .ok db) : WellLinked db := by
  have hra := (C06.build_rule_abiding ap es db h).1
  unfold buildDatabase at h
  obtain ⟨enums, hE, h⟩ := C06.bind_ok _ _ _ h
  obtain ⟨tables, hT, h⟩ := C06.bind_ok _ _ _ h
  obtain ⟨groups, hG, h⟩ := C06.bind_ok _ _ _ h
  obtain ⟨project, hP, h⟩ := C06.bind_ok _ _ _ h
  obtain ⟨refs, hR, h⟩ := C06.bind_ok _ _ _ h
  simp only [pure, Except.pure, Except.ok.injEq] at h
  subst h
  refine ⟨?_, ?_, ?_⟩
  · exact C06.foldlM_inv (tableStep enums) (fun acc => ∀ t ∈ acc, TableOK enums t)
      (by
        intro acc tb acc' hinv hs
        unfold tableStep at hs
        obtain ⟨t, ht, hs⟩ := C06.bind_ok _ _ _ hs
        obtain ⟨rfl, _⟩ := C06.addTable_ok _ _ _ hs
        intro x hx
        rcases List.mem_append.mp hx with hx | hx
        · exact hinv x hx
        · simp at hx; subst hx; exact buildTable_ok _ _ _ ht) _ _ _ (by simp) hT
  · exact C06.foldlM_inv (refStep _) (fun acc => ∀ r ∈ acc, RefOK tables r)
      (by
        intro acc rb acc' hinv hs
        obtain ⟨r, rfl, hr, _⟩ := C06.refStep_ok _ _ _ _ hs
        intro x hx
        rcases List.mem_append.mp hx with hx | hx
        · exact hinv x hx
        · simp at hx; subst hx; exact C05.build_refs_in_range _ _ _ hr) _ _ _ (by simp) hR
  · intro g hg
    exact (hra.groupItems g hg).2

/-! ### the SQL renderer is total on well-linked databases -/

def IsOk {ε α} (x : Except ε α) : Prop := ∃ a, x = .ok a

theorem IsOk.pure {ε α} (a : α) : IsOk (pure a : Except ε α) := ⟨a, rfl⟩
theorem IsOk.ok {ε α} (a : α) : IsOk (.ok a : Except ε α) := ⟨a, rfl⟩

theorem IsOk.bind {ε α β} {x : Except ε α} {f : α → Except ε β} (hx : IsOk x)
    (hf : ∀ a, x = .ok a → IsOk (f a)) : IsOk (x >>= f) := by
  obtain ⟨a, ha⟩ := hx
  obtain ⟨b, hb⟩ := hf a ha
  subst ha
  exact ⟨b, hb⟩

theorem IsOk.mapM {α β ε} (f : α → Except ε β) :
    ∀ (l : List α), (∀ a ∈ l, IsOk (f a)) → IsOk (l.mapM f) := by
  intro l
  induction l with
  | nil => intro _; exact ⟨[], by simp [List.mapM_nil, Pure.pure, Except.pure]⟩
  | cons x xs ih =>
    intro h
    obtain ⟨b, hb⟩ := h x (by simp)
    obtain ⟨r, hr⟩ := ih (fun a ha => h a (by simp [ha]))
    exact ⟨b :: r, by rw [List.mapM_cons, hb, hr]; rfl⟩

theorem getD?_ok {α} (l : List α) (i : Nat) (why : String) (h : i < l.length) : IsOk (getD? l i why) :=
  ⟨l[i], by simp [getD?, List.getElem?_eq_getElem h]⟩

theorem getD?_of_some {α} (l : List α) (i : Nat) (why : String) (a : α) (h : l[i]? = some a) :
    getD? l i why = .ok a := by
  simp [getD?, h]

theorem colNames_ok (t : Table) (cols : List Nat) (h : ∀ i ∈ cols, i < t.columns.length) :
    IsOk (Sql.colNames t cols) := by
  unfold Sql.colNames
  refine IsOk.bind (IsOk.mapM _ _ ?_) (fun _ _ => IsOk.pure _)
  intro i hi
  exact IsOk.bind (getD?_ok _ _ _ (h i hi)) (fun _ _ => IsOk.pure _)

theorem typeText_ok (db : Db) (c : Column) (h : ColOK db.enums c) : IsOk (Sql.typeText db c) := by
  unfold Sql.typeText
  split
  · exact IsOk.pure _
  · rename_i i hi
    exact IsOk.bind (getD?_ok _ _ _ (h i hi)) (fun _ _ => IsOk.pure _)
  · exact IsOk.pure _

theorem renderColumn_ok (db : Db) (cpk : Bool) (c : Column) (h : ColOK db.enums c) :
    IsOk (Sql.renderColumn db cpk c) := by
  unfold Sql.renderColumn
  exact IsOk.bind (typeText_ok db c h) (fun _ _ => IsOk.pure _)

theorem renderIndex_ok (t : Table) (ix : Index)
    (h : ∀ s ∈ ix.subjects, ∀ i, s = .col i → i < t.columns.length) : IsOk (Sql.renderIndex t ix) := by
  unfold Sql.renderIndex
  refine IsOk.bind (IsOk.mapM _ _ ?_) ?_
  · intro s hs
    cases s with
    | col i => exact IsOk.bind (getD?_ok _ _ _ (h _ hs i rfl)) (fun _ _ => IsOk.pure _)
    | expr e => exact IsOk.pure _
    | raw x => exact IsOk.pure _
  · intro r _
    dsimp only
    split <;> exact IsOk.pure _

theorem renderTableWith_ok (db : Db) (t : Table) (refs : List Str) (h : TableOK db.enums t) :
    IsOk (Sql.renderTableWith db t refs) := by
  unfold Sql.renderTableWith
  refine IsOk.bind ?_ (fun _ _ => IsOk.bind (IsOk.mapM _ _ ?_) (fun _ _ => IsOk.pure _))
  · unfold Sql.createBody
    refine IsOk.bind (IsOk.mapM _ _ ?_) (fun _ _ => IsOk.bind (IsOk.mapM _ _ ?_) (fun _ _ => IsOk.pure _))
    · intro c hc
      exact IsOk.bind (renderColumn_ok db _ c (h.1 c hc)) (fun _ _ => IsOk.pure _)
    · intro ix hix
      exact IsOk.bind (renderIndex_ok t ix (h.2 ix (List.mem_filter.mp hix).1)) (fun _ _ => IsOk.pure _)
  · intro ix hix
    exact IsOk.bind (renderIndex_ok t ix (h.2 ix (List.mem_filter.mp hix).1)) (fun _ _ => IsOk.pure _)

theorem refSides_ok (tables : List Table) (r : Ref) (h : RefOK tables r) :
    ∃ a b, tables[(Sql.refSides r).1.1]? = some a ∧ tables[(Sql.refSides r).2.1]? = some b
      ∧ (∀ i ∈ (Sql.refSides r).1.2, i < a.columns.length) ∧ (∀ i ∈ (Sql.refSides r).2.2, i < b.columns.length) := by
  obtain ⟨t1, t2, h1, h2, h3, h4⟩ := h
  unfold Sql.refSides
  split
  · exact ⟨t2, t1, h2, h1, h4, h3⟩
  · exact ⟨t1, t2, h1, h2, h3, h4⟩

theorem renderInlineRef_ok (db : Db) (r : Ref) (h : RefOK db.tables r) : IsOk (Sql.renderInlineRef db r) := by
  obtain ⟨a, b, ha, hb, hca, hcb⟩ := refSides_ok _ _ h
  unfold Sql.renderInlineRef
  generalize Sql.refSides r = sides at *
  obtain ⟨⟨st, sc⟩, ⟨rt, rc⟩⟩ := sides
  dsimp only at *
  refine IsOk.bind ⟨a, getD?_of_some _ _ _ _ ha⟩ ?_
  intro a' ha'
  rw [getD?_of_some _ _ _ _ ha] at ha'; cases ha'
  refine IsOk.bind ⟨b, getD?_of_some _ _ _ _ hb⟩ ?_
  intro b' hb'
  rw [getD?_of_some _ _ _ _ hb] at hb'; cases hb'
  exact IsOk.bind (colNames_ok _ _ hca) (fun _ _ => IsOk.bind (colNames_ok _ _ hcb) (fun _ _ => IsOk.pure _))

theorem renderNotInlineRef_ok (db : Db) (r : Ref) (h : RefOK db.tables r) : IsOk (Sql.renderNotInlineRef db r) := by
  obtain ⟨a, b, ha, hb, hca, hcb⟩ := refSides_ok _ _ h
  unfold Sql.renderNotInlineRef
  generalize Sql.refSides r = sides at *
  obtain ⟨⟨st, sc⟩, ⟨rt, rc⟩⟩ := sides
  dsimp only at *
  refine IsOk.bind ⟨a, getD?_of_some _ _ _ _ ha⟩ ?_
  intro a' ha'
  rw [getD?_of_some _ _ _ _ ha] at ha'; cases ha'
  refine IsOk.bind ⟨b, getD?_of_some _ _ _ _ hb⟩ ?_
  intro b' hb'
  rw [getD?_of_some _ _ _ _ hb] at hb'; cases hb'
  exact IsOk.bind (colNames_ok _ _ hca) (fun _ _ => IsOk.bind (colNames_ok _ _ hcb) (fun _ _ => IsOk.pure _))

theorem renderManyToMany_ok (db : Db) (r : Ref) (hl : WellLinked db) (h : RefOK db.tables r) :
    IsOk (Sql.renderManyToMany db r) := by
  obtain ⟨t1, t2, h1, h2, h3, h4⟩ := h
  have ht1 : t1 ∈ db.tables := List.mem_of_getElem? h1
  have ht2 : t2 ∈ db.tables := List.mem_of_getElem? h2
  unfold Sql.renderManyToMany
  refine IsOk.bind ⟨t1, getD?_of_some _ _ _ _ h1⟩ ?_
  intro a' ha'
  rw [getD?_of_some _ _ _ _ h1] at ha'; cases ha'
  refine IsOk.bind ⟨t2, getD?_of_some _ _ _ _ h2⟩ ?_
  intro b' hb'
  rw [getD?_of_some _ _ _ _ h2] at hb'; cases hb'
  dsimp only
  -- the join table's columns copy the types of the referenced columns
  have mkOK : ∀ (t : Table), t ∈ db.tables → ∀ (cols : List Nat), (∀ i ∈ cols, i < t.columns.length) →
      ∀ res, cols.mapM (fun i => do
        let c ← getD? t.columns i "reference column position"
        pure ({ name := t.name ++ '_' :: c.name, type := c.type, notNull := true, pk := true } : Column)) = .ok res →
      ∀ c ∈ res, ColOK db.enums c := by
    intro t ht cols hc res hres
    refine C05.mapM_all _ (ColOK db.enums) ?_ _ _ hres
    intro i c hic
    cases hg : getD? t.columns i "reference column position" with
    | error e => simp [hg, bind, Except.bind] at hic
    | ok col =>
      simp [hg, bind, Except.bind, Pure.pure, Except.pure] at hic
      subst hic
      have : col ∈ t.columns := by
        unfold getD? at hg
        split at hg
        · rename_i a hx; cases hg; exact List.mem_of_getElem? hx
        · cases hg
      exact (hl.tables t ht).1 col this
  refine IsOk.bind (IsOk.mapM _ _ ?_) ?_
  · intro i hi
    exact IsOk.bind (getD?_ok _ _ _ (h3 i hi)) (fun _ _ => IsOk.pure _)
  intro jc1 hjc1
  refine IsOk.bind (IsOk.mapM _ _ ?_) ?_
  · intro i hi
    exact IsOk.bind (getD?_ok _ _ _ (h4 i hi)) (fun _ _ => IsOk.pure _)
  intro jc2 hjc2
  refine IsOk.bind (renderTableWith_ok db _ [] ⟨?_, ?_⟩) ?_
  · intro c hc
    rcases List.mem_append.mp hc with hc | hc
    · exact mkOK t1 ht1 _ h3 _ hjc1 c hc
    · exact mkOK t2 ht2 _ h4 _ hjc2 c hc
  · intro ix hix; simp at hix
  intro _ _
  exact IsOk.bind (colNames_ok _ _ h3) (fun _ _ => IsOk.bind (colNames_ok _ _ h4) (fun _ _ => IsOk.pure _))

theorem renderTable_ok (db : Db) (hl : WellLinked db) (ti : Nat) (hti : ti < db.tables.length) :
    IsOk (Sql.renderTable db ti) := by
  unfold Sql.renderTable
  refine IsOk.bind (getD?_ok _ _ _ hti) ?_
  intro t ht
  have htm : t ∈ db.tables := by
    unfold getD? at ht
    split at ht
    · rename_i a hx; cases ht; exact List.mem_of_getElem? hx
    · cases ht
  refine IsOk.bind (IsOk.mapM _ _ ?_) (fun _ _ => renderTableWith_ok db t _ (hl.tables t htm))
  intro r hr
  unfold Sql.inlineRefsFor at hr
  split at hr
  · simp at hr
  · exact renderInlineRef_ok db r (hl.refs r (List.mem_filter.mp hr).1)

/-- the SQL renderer is total on well-linked databases -/
theorem sql_total (db : Db) (hl : WellLinked db) : IsOk (Sql.renderDb db) := by
  unfold Sql.renderDb
  refine IsOk.bind (IsOk.mapM _ _ ?_) (fun _ _ => IsOk.bind (IsOk.mapM _ _ ?_) (fun _ _ => IsOk.pure _))
  · intro ti hti
    have : ti ∈ List.range db.tables.length := (C18.perm db.tables db.refs).subset hti
    exact renderTable_ok db hl ti (List.mem_range.mp this)
  · intro r hr
    have hrm := (List.mem_filter.mp hr).1
    unfold Sql.renderRefTop
    split
    · exact renderManyToMany_ok db r hl (hl.refs r hrm)
    · split
      · exact renderInlineRef_ok db r (hl.refs r hrm)
      · exact renderNotInlineRef_ok db r (hl.refs r hrm)

/-- **C08, `.sql` of a parsed database, for any input text**: when the parse returns a database, the
    SQL rendering evaluates (no exception of any class). -/
theorem parsed_sql_total (ap : Bool) (text : Str) (db : Db) (h : Build.parse ap text = .ok db) :
    ∃ s, Sql.renderDb db = .ok s := by
  unfold Build.parse at h
  split at h
  · rename_i es c hp
    split at h
    · rename_i db' hb
      cases h
      exact sql_total db (build_wellLinked _ _ _ hb)
    · cases h
  · cases h
  · cases h
  · cases h

end C08
end PyDBML
