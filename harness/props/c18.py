"""C18 — SQL creates a table before any table that references it inline; the order is a permutation."""
from harness import core
from harness.props import sqlcommon as SC
from harness import gen_db as GD, observe as O, sql_oracle as SO

PID = 'C18'
THEOREMS = ['PyDBML.C18.perm', 'PyDBML.C18.nodup', 'PyDBML.C18.perm_tables',
            'PyDBML.C18.depends_only_on_model', 'PyDBML.C18.chain_violates',
            'PyDBML.C18.order_sorted', 'PyDBML.C18.order_stable', 'PyDBML.C18.order_identity_without_hosts']
MODULES = ['PyDBMLProofs.Props.C18', 'PyDBMLProofs.Props.C18Order']

CHAIN = 'Table a {\n  id int [ref: > b.id]\n}\nTable b {\n  id int\n}\n'


def kf_replay(f):
    from pydbml import PyDBML
    sql = PyDBML(f['witness']['dbml']).sql
    return sql.index('CREATE TABLE "a"') < sql.index('CREATE TABLE "b"')


def main(tier, seed):
    ctx = core.Ctx(PID, tier, seed, 'proof', THEOREMS, MODULES)
    problems = SC.run_sql_check(ctx, PID)
    return ctx.finish(
        rule='random databases (1-7 tables, 0-5 references of all four kinds, ~60% inline, self/cross-table/cross-schema, '
             'chains, DAGs and cycles arise); non-trivial: at least one inline reference; distinct by canonical dump hash',
        explanation='Theorems: the order is a permutation of the tables (perm, nodup, perm_tables) and a function of table '
                    'names and hosted inline references only (depends_only_on_model). The first clause (targets first) '
                    'is false of the current code — kernel-checked witness chain_violates, replayed on the real code as '
                    'known finding KF-C18-hosts-first. Correspondence: reorder_tables_for_sql and the CREATE TABLE order of '
                    'db.sql against the model; oracle: CREATE TABLE order read back by the independent DDL reader.',
        assumptions=['sorted() is a stable sort (modelled as stable insertion sort)'],
        trusted_base=['Lean 4.33 kernel', 'axioms: propext, Classical.choice, Quot.sound only',
                      'hand-written model PyDBMLModel/RenderSql.lean (reorderIdx) tied by this correspondence',
                      'harness/ddl_reader.py'],
        kf_replay=kf_replay, proof_problems=problems)


def replay(path):
    return SC.replay_sql(path, PID)
