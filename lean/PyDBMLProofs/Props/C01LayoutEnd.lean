/-
C01 — line breaks after the last element are inert too: `parseDoc_elems_gaps_end` reads a first element and further
elements after any positive numbers of empty lines, followed by ANY number of line breaks at the end of the text (the usual
way a file ends), as exactly their blueprints.
-/
import PyDBMLProofs.Props.C01Layout
import PyDBMLProofs.Props.C02DocMore
namespace PyDBML
namespace C02
open Lex Grammar Build

/-! ### nothing starts at the end of the text -/

theorem clit_fail_nil (s : String) (c : Cur) (hr : (skipWs c).rest = []) (hs : s.toList ≠ []) : clit s c = .fail := by
  unfold clit
  cases h : s.toList with
  | nil => exact absurd h hs
  | cons a b => simp [hr, startsWithCaseless]

theorem ckw_fail_nil (s : String) (c : Cur) (hr : (skipWs c).rest = []) (hs : s.toList ≠ []) : ckw s c = .fail := by
  unfold ckw
  cases h : s.toList with
  | nil => exact absurd h hs
  | cons a b => simp [hr, startsWithCaseless]

theorem stickyNoteRule_fail' (c c0 : Cur) (bs : List Str) (hb : cBefore c = .ok bs c0) (hk : clit "note" c0 = .fail) :
    stickyNoteRule c = .fail := by
  unfold stickyNoteRule; simp only [bind, pbind, hb, hk]

/-- line breaks up to the end of the text: `_c` reads them all and stops -/
theorem many_nls_end : ∀ (m f : Nat) (c : Cur), c.rest = List.replicate m '\n' → c.pastEnd = false →
    ∃ c0, many cbBody (f + m + 1) c = .ok (List.replicate m none) c0 ∧ c0.rest = [] ∧ c0.pastEnd = false := by
  intro m
  induction m with
  | zero =>
    intro f c hc hp
    have hc' : c.rest = [] := by simpa using hc
    refine ⟨c, ?_, hc', hp⟩
    exact many_stop cbBody f c (cbBody_fail c (sym_fail_nil "\n" c (skipWs_rest_nil c hc') (by decide))
      (comment_fail_nil c (skipWs_rest_nil c hc')))
  | succ m ih =>
    intro f c hc hp
    have hc' : c.rest = '\n' :: List.replicate m '\n' := by simpa [List.replicate_succ] using hc
    obtain ⟨hs, hr1, hp1, _⟩ := sym_nl_here c _ hc' hp
    obtain ⟨c0, hm, hr0, hp0⟩ := ih f (advance c 1) hr1 hp1
    refine ⟨c0, ?_, hr0, hp0⟩
    have := many_cons cbBody (f + m + 1) c (advance c 1) c0 none _ (cbBody_nl c _ hs) (by rw [hr1, hc']; simp) hm
    have e : f + (m + 1) + 1 = f + m + 1 + 1 := by omega
    rw [e]
    simpa [List.replicate_succ] using this

theorem filterMap_replicate_none' {α} (k : Nat) : (List.replicate k (none : Option α)).filterMap id = [] := by
  induction k with
  | zero => rfl
  | succ k ih => simpa [List.replicate_succ] using ih

/-- no element starts where only line breaks are left -/
theorem element_fail_newlines (props : Bool) (c : Cur) (m : Nat) (hc : c.rest = List.replicate m '\n') (hp : c.pastEnd = false) :
    element props c = .fail := by
  have hlen : c.rest.length + 2 = 1 + m + 1 := by rw [hc]; simp; omega
  obtain ⟨c0, hm, hr0, _⟩ := many_nls_end m 1 c hc hp
  rw [← hlen] at hm
  have hb : cBefore c = .ok [] c0 := by
    have := cBefore_of_many c c0 _ hm
    rwa [filterMap_replicate_none'] at this
  have hn := skipWs_rest_nil c0 hr0
  unfold element alt
  simp only [bind, pbind, tableRule_fail' props c c0 [] hb (ckw_fail_nil _ c0 hn (by decide)),
    refRule_fail' c c0 [] hb (clit_fail_nil _ c0 hn (by decide)), enumRule_fail' c c0 [] hb (clit_fail_nil _ c0 hn (by decide)),
    tableGroupRule_fail' c c0 [] hb (clit_fail_nil _ c0 hn (by decide)), projectRule_fail' c c0 [] hb (clit_fail_nil _ c0 hn (by decide)),
    stickyNoteRule_fail' c c0 [] hb (clit_fail_nil _ c0 hn (by decide))]

/-- `_` over line breaks up to the end of the text -/
theorem skipNl_newlines (c : Cur) (m : Nat) (hc : c.rest = List.replicate m '\n') (hp : c.pastEnd = false) :
    ∃ c', skipNl c = .ok () c' ∧ c'.rest = [] := by
  have key : ∀ (m f : Nat) (c : Cur), c.rest = List.replicate m '\n' → c.pastEnd = false →
      ∃ c0 xs, many (alt (sym "\n") (do let _ ← comment; pure ())) (f + m + 1) c = .ok xs c0 ∧ c0.rest = [] := by
    intro m
    induction m with
    | zero =>
      intro f c hc hp
      have hc' : c.rest = [] := by simpa using hc
      refine ⟨c, [], ?_, hc'⟩
      apply many_stop
      simp [alt, sym_fail_nil "\n" c (skipWs_rest_nil c hc') (by decide), bind, pbind,
        comment_fail_nil c (skipWs_rest_nil c hc')]
    | succ m ih =>
      intro f c hc hp
      have hc' : c.rest = '\n' :: List.replicate m '\n' := by simpa [List.replicate_succ] using hc
      obtain ⟨hs, hr1, hp1, _⟩ := sym_nl_here c _ hc' hp
      obtain ⟨c0, xs, hm, hr0⟩ := ih f (advance c 1) hr1 hp1
      refine ⟨c0, () :: xs, ?_, hr0⟩
      have e : f + (m + 1) + 1 = f + m + 1 + 1 := by omega
      rw [e]
      exact many_cons _ (f + m + 1) c (advance c 1) c0 () xs (by simp [alt, hs]) (by rw [hr1, hc']; simp) hm
  obtain ⟨c0, xs, hm, hr0⟩ := key m 1 c hc hp
  refine ⟨c0, ?_, hr0⟩
  have hlen : c.rest.length + 2 = 1 + m + 1 := by rw [hc]; simp; omega
  simp only [bind, pbind, pure, ppure] at hm
  unfold skipNl manyF fuelOf
  simp only [bind, pbind, hlen, pure, ppure, hm]

variable {ap : Bool}

/-! ### documents that end in line breaks -/

/-- the rest of a document that ends in `m` line breaks -/
def docTailGT (m : Nat) : List (Nat × EForm ap) → Str
  | [] => List.replicate m '\n'
  | (k, e) :: es => '\n' :: (List.replicate k '\n' ++ '\n' :: (e.text ++ docTailGT m es))

def afterGT (m : Nat) : List (Nat × EForm ap) → Str
  | [] => List.replicate (m - 1) '\n'
  | (k, e) :: es => List.replicate k '\n' ++ '\n' :: (e.text ++ docTailGT m es)

def docTextGT (m : Nat) (e : EForm ap) (es : List (Nat × EForm ap)) : Str := e.text ++ docTailGT m es

theorem docTailGT_ends (m : Nat) (es : List (Nat × EForm ap)) : EndsOK (docTailGT m es) := by
  cases es with
  | nil =>
    cases m with
    | zero => exact Or.inl rfl
    | succ j => exact Or.inr ⟨List.replicate j '\n', by simp [docTailGT, List.replicate_succ]⟩
  | cons e r => obtain ⟨k, e⟩ := e; exact Or.inr ⟨_, rfl⟩

theorem after_docTailGT (m : Nat) (es : List (Nat × EForm ap)) (c9 : Cur) (h : After (docTailGT m es) c9) :
    c9.rest = afterGT m es ∧ c9.pastEnd = (es.isEmpty && m == 0) := by
  cases es with
  | nil =>
    cases m with
    | zero => simpa [afterGT, docTailGT] using h.1 rfl
    | succ j => simpa [afterGT, docTailGT] using h.2 (List.replicate j '\n') (by simp [docTailGT, List.replicate_succ])
  | cons e r => obtain ⟨k, e⟩ := e; simpa [afterGT] using h.2 _ rfl

theorem docTailGT_length (m : Nat) : ∀ es : List (Nat × EForm ap), es.length ≤ (docTailGT m es).length := by
  intro es
  induction es with
  | nil => simp
  | cons e r ih => obtain ⟨k, e⟩ := e; simp only [docTailGT, List.length_cons, List.length_append]; omega

theorem afterGT_length (m : Nat) (es : List (Nat × EForm ap)) : es.length ≤ (afterGT m es).length := by
  cases es with
  | nil => simp
  | cons e r =>
    obtain ⟨k, e⟩ := e
    have := docTailGT_length m r
    simp only [afterGT, List.length_cons, List.length_append]; omega

theorem afterGT_lt (m k : Nat) (e : EForm ap) (r : List (Nat × EForm ap)) :
    (afterGT m r).length < (afterGT m ((k, e) :: r)).length := by
  have h := e.text_length
  cases r with
  | nil => simp only [afterGT, docTailGT, List.length_cons, List.length_append, List.length_replicate]; omega
  | cons e2 r2 =>
    obtain ⟨k2, e2⟩ := e2
    simp only [afterGT, docTailGT, List.length_cons, List.length_append, List.length_replicate]; omega

theorem element_afterGT (m : Nat) (c : Cur) (k : Nat) (e : EForm ap) (es : List (Nat × EForm ap))
    (hc : c.rest = afterGT m ((k, e) :: es)) (hp : c.pastEnd = false) :
    ∃ c9, element ap c = .ok e.elem c9 ∧ c9.rest = afterGT m es ∧ c9.pastEnd = (es.isEmpty && m == 0) := by
  obtain ⟨c0, hb, hr0, hp0, hpv0⟩ := cBefore_nls_comment c e.pre k e.head (e.body ++ docTailGT m es) e.headOK.1 e.headOK.2.1
    e.headOK.2.2 (by rw [hc]; simp [afterGT, EForm.text]) hp e.preOK
  obtain ⟨c9, hel, haft⟩ := e.parse c c0 (docTailGT m es) hb hr0 hp0 hpv0 (docTailGT_ends m es)
  exact ⟨c9, hel, after_docTailGT m es c9 haft⟩

theorem many_elems_gaps_end (m : Nat) : ∀ (es : List (Nat × EForm ap)) (fuel : Nat) (c : Cur), es.length < fuel →
    c.rest = afterGT m es → c.pastEnd = (es.isEmpty && m == 0) →
    ∃ c', many (element ap) fuel c = .ok (es.map (·.2.elem)) c' ∧ c'.rest = List.replicate (m - 1) '\n'
      ∧ c'.pastEnd = (m == 0) := by
  intro es
  induction es with
  | nil =>
    intro fuel c hf hc hp
    obtain ⟨f, rfl⟩ : ∃ f, fuel = f + 1 := ⟨fuel - 1, by simp at hf; omega⟩
    refine ⟨c, ?_, by simpa [afterGT] using hc, by simpa using hp⟩
    rw [many]
    cases m with
    | zero =>
      have hp' : c.pastEnd = true := by simpa using hp
      simp [element_fail_pastEnd ap c hp']
    | succ j =>
      have hp' : c.pastEnd = false := by simpa using hp
      simp [element_fail_newlines ap c j (by simpa [afterGT] using hc) hp']
  | cons e r ih =>
    obtain ⟨k, e⟩ := e
    intro fuel c hf hc hp
    obtain ⟨f, rfl⟩ : ∃ f, fuel = f + 1 := ⟨fuel - 1, by simp at hf; omega⟩
    have hp' : c.pastEnd = false := by simpa using hp
    obtain ⟨c1, hel, hr1, hp1⟩ := element_afterGT m c k e r hc hp'
    obtain ⟨c2, hm, hr2, hp2⟩ := ih f c1 (by simp at hf; omega) hr1 hp1
    refine ⟨c2, ?_, hr2, hp2⟩
    have hlen : c1.rest.length ≠ c.rest.length := by
      rw [hr1, hc]; have := afterGT_lt m k e r; omega
    rw [many]
    simp only [hel, hlen, decide_false, Bool.false_and, Bool.false_eq_true, ↓reduceIte, hm, List.map_cons]

theorem docTailGT_no_tab (m : Nat) : ∀ (es : List (Nat × EForm ap)), ∀ c ∈ docTailGT m es, c ≠ '\t' := by
  intro es
  induction es with
  | nil => intro c hc; simp only [docTailGT, List.mem_replicate] at hc; rw [hc.2]; decide
  | cons e r ih =>
    obtain ⟨k, e⟩ := e
    intro c hc
    simp only [docTailGT, List.mem_cons, List.mem_append, List.mem_replicate] at hc
    rcases hc with rfl | ⟨_, rfl⟩ | rfl | h | h
    · decide
    · decide
    · decide
    · exact e.text_no_tab c h
    · exact ih c h

/-- **blank lines between elements and line breaks at the end are inert**: a first element, further elements each after
    any positive number of empty lines, and any number `m` of line breaks after the last one (`m = 1` is the usual file
    ending), are read as exactly their blueprints, in order. -/
theorem parseDoc_elems_gaps_end (m : Nat) (e : EForm ap) (r : List (Nat × EForm ap)) :
    ∃ c', parseDoc ap (docTextGT m e r) = .ok (e.elem :: r.map (·.2.elem)) c' := by
  have hnotab : ∀ c ∈ docTextGT m e r, c ≠ '\t' := by
    intro c hc
    rcases List.mem_append.mp hc with h | h
    · exact e.text_no_tab c h
    · exact docTailGT_no_tab m r c h
  unfold parseDoc expandTabs
  rw [expandTabsAux_plain 0 _ hnotab]
  let c0 : Cur := { rest := docTextGT m e r }
  obtain ⟨cb, hb, hrb, hpb, hpvb⟩ := cBefore_comment c0 e.pre e.head (e.body ++ docTailGT m r) e.headOK.1 e.headOK.2.1
    e.headOK.2.2 (show c0.rest = _ by simp [c0, docTextGT, EForm.text]) rfl e.preOK (by intro p hpp; cases hpp)
  obtain ⟨c1, hel, haft⟩ := e.parse c0 cb (docTailGT m r) hb hrb hpb hpvb (docTailGT_ends m r)
  obtain ⟨hr1, hp1⟩ := after_docTailGT m r c1 haft
  have hlt : (afterGT m r).length < (docTextGT m e r).length := by
    have h := e.text_length
    cases r with
    | nil => simp only [afterGT, docTextGT, docTailGT, List.length_append, List.length_replicate]; omega
    | cons e2 r2 =>
      obtain ⟨k2, e2⟩ := e2
      simp only [afterGT, docTextGT, docTailGT, List.length_cons, List.length_append, List.length_replicate]; omega
  have hfuel : r.length < c0.rest.length + 1 := by
    have h1 := afterGT_length m r
    show r.length < (docTextGT m e r).length + 1
    omega
  obtain ⟨c2, hm, hr2, hp2⟩ := many_elems_gaps_end m r (c0.rest.length + 1) c1 hfuel hr1 hp1
  have hmany : manyF (element ap) c0 = .ok (e.elem :: r.map (·.2.elem)) c2 := by
    unfold manyF fuelOf
    have hlen : c1.rest.length ≠ c0.rest.length := by
      rw [hr1]
      show (afterGT m r).length ≠ (docTextGT m e r).length
      omega
    rw [many]
    simp only [hel, hlen, decide_false, Bool.false_and, Bool.false_eq_true, ↓reduceIte, hm]
  cases m with
  | zero =>
    have hp2' : c2.pastEnd = true := by simpa using hp2
    have hr2' : c2.rest = [] := by simpa using hr2
    obtain ⟨c9, hse⟩ := stringEnd_eof c2 (skipWs_rest_nil c2 hr2')
    refine ⟨c9, ?_⟩
    show document ap c0 = _
    unfold document
    simp only [bind, pbind, hmany, skipNl_pastEnd c2 hp2', hse, pure, ppure]
  | succ j =>
    have hp2' : c2.pastEnd = false := by simpa using hp2
    obtain ⟨c3, hsk, hr3⟩ := skipNl_newlines c2 j (by simpa using hr2) hp2'
    obtain ⟨c9, hse⟩ := stringEnd_eof c3 (skipWs_rest_nil c3 hr3)
    refine ⟨c9, ?_⟩
    show document ap c0 = _
    unfold document
    simp only [bind, pbind, hmany, hsk, hse, pure, ppure]

end C02
end PyDBML
