/-
C06 — rule-breaking documents are rejected.  Theorems about `Build.buildDatabase` (the model of
`PyDBMLParser.build_database` + `Database.add_*` + `Blueprint.build`):

* whenever it returns a database, that database has no two tables sharing a key (full name or alias),
  no two enums with one schema and name, no two groups with one name, no group listing a table
  twice, no two equal references - and nothing was dropped on the way (`*_count`): so a document
  declaring such a clash never yields a database (`ok_*`);
* the error of each rule is the one belonging to it (`*_error`);
* a table/column that is looked up is either found under exactly the key asked for or the lookup
  ends in TableNotFoundError / ColumnNotFoundError (`locateTable_sound`, `locateTable_error`, …).
-/
import PyDBMLModel
import PyDBMLProofs.Props.C05
namespace PyDBML
namespace C06
open Build Lex

/-! ### folds in `Except` -/

theorem foldlM_inv {α β ε} (f : β → α → Except ε β) (Inv : β → Prop)
    (hstep : ∀ b a b', Inv b → f b a = .ok b' → Inv b') :
    ∀ (l : List α) (b b' : β), Inv b → l.foldlM f b = .ok b' → Inv b' := by
  intro l
  induction l with
  | nil =>
    intro b b' hb h
    simp [List.foldlM_nil, pure, Except.pure] at h
    subst h; exact hb
  | cons x xs ih =>
    intro b b' hb h
    rw [List.foldlM_cons] at h
    cases hx : f b x with
    | error e => simp [hx, bind, Except.bind] at h
    | ok y =>
      simp only [hx, bind, Except.bind] at h
      exact ih y b' (hstep _ _ _ hb hx) h

/-- a fold whose every successful step appends one element derived from the input element:
    the result lists exactly the inputs, in order, nothing dropped and nothing invented -/
theorem foldlM_snoc {α β γ ε} (f : List β → α → Except ε (List β)) (k : β → γ) (k' : α → γ)
    (hstep : ∀ b a b', f b a = .ok b' → ∃ x, b' = b ++ [x] ∧ k x = k' a) :
    ∀ (l : List α) (b b' : List β), l.foldlM f b = .ok b' → b'.map k = b.map k ++ l.map k' := by
  intro l
  induction l with
  | nil =>
    intro b b' h
    simp [List.foldlM_nil, pure, Except.pure] at h
    subst h; simp
  | cons x xs ih =>
    intro b b' h
    rw [List.foldlM_cons] at h
    cases hx : f b x with
    | error e => simp [hx, bind, Except.bind] at h
    | ok y =>
      simp only [hx, bind, Except.bind] at h
      obtain ⟨z, rfl, hz⟩ := hstep _ _ _ hx
      rw [ih _ _ h]
      simp [hz]

theorem bind_ok {ε α β} (x : Except ε α) (f : α → Except ε β) (b : β)
    (h : (x >>= f) = .ok b) : ∃ a, x = .ok a ∧ f a = .ok b := by
  cases x with
  | error e => simp [bind, Except.bind] at h
  | ok a => exact ⟨a, rfl, by simpa [bind, Except.bind] using h⟩

/-! ### tables -/

/-- two tables of one database never share a key of the name/alias dictionary -/
def DisjointKeys (u t : Table) : Prop :=
  u.fullName ≠ t.fullName ∧ u.alias ≠ some t.fullName ∧
  (∀ a, t.alias = some a → u.fullName ≠ a ∧ u.alias ≠ some a)

theorem hasKey_false (ts : List Table) (key : Str) (h : hasKey ts key = false) :
    ∀ u ∈ ts, u.fullName ≠ key ∧ u.alias ≠ some key := by
  intro u hu
  simp only [hasKey, List.any_eq_false] at h
  have := h u hu
  simpa using this

theorem addTable_ok (ts : List Table) (t : Table) (ts' : List Table) (h : addTable ts t = .ok ts') :
    ts' = ts ++ [t] ∧ ∀ u ∈ ts, DisjointKeys u t := by
  unfold addTable at h
  by_cases c1 : t ∈ ts
  · simp [c1, throw, throwThe, MonadExceptOf.throw] at h
  by_cases c2 : hasKey ts t.fullName = true
  · simp [c1, c2, throw, throwThe, MonadExceptOf.throw] at h
  have k1 := hasKey_false ts t.fullName (by simpa using c2)
  cases ha : t.alias with
  | none =>
    simp [c1, c2, ha, pure, Except.pure] at h
    refine ⟨h.symm, fun u hu => ⟨(k1 u hu).1, (k1 u hu).2, ?_⟩⟩
    intro a h'; rw [ha] at h'; cases h'
  | some a =>
    by_cases c3 : hasKey ts a = true
    · simp [c1, c2, ha, c3, throw, throwThe, MonadExceptOf.throw] at h
    simp [c1, c2, ha, c3, pure, Except.pure] at h
    refine ⟨h.symm, fun u hu => ⟨(k1 u hu).1, (k1 u hu).2, ?_⟩⟩
    intro a' h'
    rw [ha] at h'
    cases h'
    exact hasKey_false ts a (by simpa using c3) u hu

/-- the error of the table rule is DatabaseValidationError -/
theorem addTable_error (ts : List Table) (t : Table) (e : PErr) (h : addTable ts t = .error e) :
    e = .lib "DatabaseValidationError" := by
  unfold addTable at h
  by_cases c1 : t ∈ ts
  · simpa [c1, throw, throwThe, MonadExceptOf.throw] using h.symm
  by_cases c2 : hasKey ts t.fullName = true
  · simpa [c1, c2, throw, throwThe, MonadExceptOf.throw] using h.symm
  cases ha : t.alias with
  | none => simp [c1, c2, ha, pure, Except.pure] at h
  | some a =>
    by_cases c3 : hasKey ts a = true
    · simpa [c1, c2, ha, c3, throw, throwThe, MonadExceptOf.throw] using h.symm
    · simp [c1, c2, ha, c3, pure, Except.pure] at h

/-- two declarations with one schema and name, or a reused alias / an alias equal to an existing
    key, are refused wherever they stand -/
theorem addTable_clash (ts : List Table) (t u : Table) (hu : u ∈ ts)
    (hc : u.fullName = t.fullName ∨ u.alias = some t.fullName
        ∨ (∃ a, t.alias = some a ∧ (u.fullName = a ∨ u.alias = some a))) :
    addTable ts t = .error (.lib "DatabaseValidationError") := by
  cases h : addTable ts t with
  | error e => rw [addTable_error ts t e h]
  | ok ts' =>
    exfalso
    obtain ⟨_, hd⟩ := addTable_ok ts t ts' h
    obtain ⟨d1, d2, d3⟩ := hd u hu
    rcases hc with hc | hc | ⟨a, ha, hc⟩
    · exact d1 hc
    · exact d2 hc
    · rcases hc with hc | hc
      · exact (d3 a ha).1 hc
      · exact (d3 a ha).2 hc

theorem buildTable_name (enums : List Enum) (tb : Bp.TableBp) (t : Table)
    (h : buildTable enums tb = .ok t) : t.name = tb.name ∧ t.schema = tb.schema := by
  unfold buildTable at h
  obtain ⟨_, _, h⟩ := bind_ok _ _ _ h
  obtain ⟨_, _, h⟩ := bind_ok _ _ _ h
  obtain ⟨_, _, h⟩ := bind_ok _ _ _ h
  simp only [pure, Except.pure, Except.ok.injEq] at h
  subst h
  exact ⟨rfl, rfl⟩

/-! ### enums -/

def EnumsDiffer (a b : Enum) : Prop := ¬ (a.name = b.name ∧ a.schema = b.schema)

theorem addEnum_ok (es : List Enum) (e : Enum) (es' : List Enum) (h : addEnum es e = .ok es') :
    es' = es ++ [e] ∧ ∀ x ∈ es, EnumsDiffer x e := by
  unfold addEnum at h
  split at h
  · simp [throw, throwThe, MonadExceptOf.throw] at h
  rename_i h1
  simp only [pure, Except.pure, Except.ok.injEq] at h
  refine ⟨h.symm, ?_⟩
  intro x hx
  simp only [Bool.not_eq_true, List.any_eq_false] at h1
  have := h1 x hx
  simpa [EnumsDiffer] using this

theorem addEnum_error (es : List Enum) (e : Enum) (er : PErr) (h : addEnum es e = .error er) :
    er = .lib "DatabaseValidationError" := by
  unfold addEnum at h
  split at h
  · simpa [throw, throwThe, MonadExceptOf.throw] using h.symm
  · simp [pure, Except.pure] at h

theorem buildEnum_name (eb : Bp.EnumBp) (e : Enum) (h : buildEnum eb = .ok e) :
    e.name = eb.name ∧ e.schema = eb.schema := by
  unfold buildEnum at h
  simp only [pure, Except.pure, Except.ok.injEq] at h
  subst h
  exact ⟨rfl, rfl⟩

/-! ### lookups: found under the key asked for, or the error of the rule -/

theorem findKey_sound (ts : List Table) (key : Str) (i : Nat) (h : findKey ts key = some i) :
    ∃ t, ts[i]? = some t ∧ (t.fullName = key ∨ t.alias = some key) := by
  unfold findKey at h
  have := List.find?_some h
  cases ht : ts[i]? with
  | none => simp [ht] at this
  | some t =>
    refine ⟨t, rfl, ?_⟩
    simpa [ht] using this

/-- `locate_table` binds a name to a table that carries exactly that name: as alias or bare key first,
    else as `schema.name`; never to something else -/
theorem locateTable_sound (ts : List Table) (schema name : Str) (i : Nat)
    (h : locateTable ts schema name = .ok i) :
    ∃ t, ts[i]? = some t ∧
      (t.fullName = name ∨ t.alias = some name ∨ t.fullName = fullName schema name
        ∨ t.alias = some (fullName schema name)) := by
  unfold locateTable at h
  cases h1 : findKey ts name with
  | some j =>
    simp [h1, pure, Except.pure] at h
    subst h
    obtain ⟨t, ht, hk⟩ := findKey_sound _ _ _ h1
    exact ⟨t, ht, by rcases hk with hk | hk <;> simp [hk]⟩
  | none =>
    simp only [h1] at h
    cases h2 : findKey ts (fullName schema name) with
    | some j =>
      simp [h2, pure, Except.pure] at h
      subst h
      obtain ⟨t, ht, hk⟩ := findKey_sound _ _ _ h2
      exact ⟨t, ht, by rcases hk with hk | hk <;> simp [hk]⟩
    | none => simp [h2, throw, throwThe, MonadExceptOf.throw] at h

theorem locateTable_error (ts : List Table) (schema name : Str) (e : PErr)
    (h : locateTable ts schema name = .error e) : e = .lib "TableNotFoundError" := by
  unfold locateTable at h
  cases h1 : findKey ts name with
  | some j => simp [h1, pure, Except.pure] at h
  | none =>
    simp only [h1] at h
    cases h2 : findKey ts (fullName schema name) with
    | some j => simp [h2, pure, Except.pure] at h
    | none => simpa [h2, throw, throwThe, MonadExceptOf.throw] using h.symm

/-- a table that exists under the name is found (nothing declared is "not found") -/
theorem locateTable_complete (ts : List Table) (schema name : Str) (t : Table) (ht : t ∈ ts)
    (hk : t.fullName = fullName schema name) : ∃ i, locateTable ts schema name = .ok i := by
  unfold locateTable
  cases h1 : findKey ts name with
  | some j => exact ⟨j, rfl⟩
  | none =>
    cases h2 : findKey ts (fullName schema name) with
    | some j => exact ⟨j, rfl⟩
    | none =>
      exfalso
      unfold findKey at h2
      rw [List.find?_eq_none] at h2
      obtain ⟨i, hi, hti⟩ := List.mem_iff_getElem.mp ht
      have := h2 i (by simp [hi])
      simp [List.getElem?_eq_getElem hi, hti, hk] at this

/-! ### table groups -/

theorem groupStep_ok (ts : List Table) (acc : List Nat) (tn : Str) (acc' : List Nat)
    (h : groupStep ts acc tn = .ok acc') :
    ∃ i, acc' = acc ++ [i] ∧ i ∉ acc ∧ i < ts.length := by
  unfold groupStep at h
  obtain ⟨i, hi, h⟩ := bind_ok _ _ _ h
  have hir := C05.locateTable_in_range _ _ _ _ hi
  by_cases hc : i ∈ acc
  · simp [hc, throw, throwThe, MonadExceptOf.throw] at h
  · simp [hc, pure, Except.pure] at h
    exact ⟨i, h.symm, hc, hir⟩

theorem groupStep_error (ts : List Table) (acc : List Nat) (tn : Str) (e : PErr)
    (h : groupStep ts acc tn = .error e) :
    e = .lib "ValidationError" ∨ e = .lib "TableNotFoundError" := by
  unfold groupStep at h
  cases hl : locateTable ts (groupItemName tn).1 (groupItemName tn).2 with
  | error e1 =>
    simp [hl, bind, Except.bind] at h
    subst h
    exact Or.inr (locateTable_error _ _ _ _ hl)
  | ok i =>
    by_cases hc : i ∈ acc
    · simp [hl, hc, throw, throwThe, MonadExceptOf.throw, bind, Except.bind] at h
      exact Or.inl h.symm
    · simp [hl, hc, pure, Except.pure, bind, Except.bind] at h

/-- an error of a fold is the error of one of its steps -/
theorem foldlM_error {α β ε} (f : β → α → Except ε β) (P : ε → Prop)
    (hstep : ∀ b a e, f b a = .error e → P e) :
    ∀ (l : List α) (b : β) (e : ε), l.foldlM f b = .error e → P e := by
  intro l
  induction l with
  | nil => intro b e h; simp [List.foldlM_nil, pure, Except.pure] at h
  | cons x xs ih =>
    intro b e h
    rw [List.foldlM_cons] at h
    cases hx : f b x with
    | error e1 =>
      simp [hx, bind, Except.bind] at h
      subst h
      exact hstep _ _ _ hx
    | ok y =>
      simp only [hx, bind, Except.bind] at h
      exact ih _ _ h

/-- a group that is built lists every table at most once - however each mention addresses it (bare,
    schema-qualified, alias) - keeps its name, and links only existing tables -/
theorem buildGroup_ok (db : Db) (g : Bp.GroupBp) (gr : Group) (h : buildGroup db g = .ok gr) :
    gr.items.Nodup ∧ gr.name = g.name ∧ ∀ i ∈ gr.items, i < db.tables.length := by
  unfold buildGroup at h
  obtain ⟨items, hitems, h⟩ := bind_ok _ _ _ h
  simp only [pure, Except.pure, Except.ok.injEq] at h
  subst h
  have := foldlM_inv (groupStep db.tables) (fun (acc : List Nat) => acc.Nodup ∧ ∀ i ∈ acc, i < db.tables.length)
    (by
      intro acc tn acc' hinv hstep
      obtain ⟨i, rfl, hni, hir⟩ := groupStep_ok _ _ _ _ hstep
      refine ⟨?_, ?_⟩
      · rw [List.nodup_append]
        exact ⟨hinv.1, by simp, by intro a ha b hb; simp at hb; subst hb; intro e; subst e; exact hni ha⟩
      · intro j hj
        rcases List.mem_append.mp hj with hj | hj
        · exact hinv.2 j hj
        · simp at hj; subst hj; exact hir)
    _ _ _ (by simp) hitems
  exact ⟨this.1, rfl, this.2⟩

/-- the error of "a table listed twice in one group" and of an unknown table in a group -/
theorem buildGroup_error (db : Db) (g : Bp.GroupBp) (e : PErr) (h : buildGroup db g = .error e) :
    e = .lib "ValidationError" ∨ e = .lib "TableNotFoundError" := by
  unfold buildGroup at h
  cases hitems : g.items.foldlM (groupStep db.tables) [] with
  | ok items => simp [hitems, bind, Except.bind, pure, Except.pure] at h
  | error e' =>
    simp only [hitems, bind, Except.bind] at h
    cases h
    exact foldlM_error _ _ (fun b a e => groupStep_error _ b a e) _ _ _ hitems

/-- listing one table twice is refused however the second mention addresses it: the step fails
    with ValidationError as soon as the located position is already in the list -/
theorem groupStep_twice (ts : List Table) (acc : List Nat) (tn : Str) (i : Nat)
    (hl : locateTable ts (groupItemName tn).1 (groupItemName tn).2 = .ok i) (hi : i ∈ acc) :
    groupStep ts acc tn = .error (.lib "ValidationError") := by
  unfold groupStep
  simp [hl, hi, bind, Except.bind, throw, throwThe, MonadExceptOf.throw]

theorem groupAddStep_ok (db0 : Db) (acc : List Group) (g : Bp.GroupBp) (acc' : List Group)
    (h : groupAddStep db0 acc g = .ok acc') :
    ∃ gr, acc' = acc ++ [gr] ∧ gr.name = g.name ∧ gr.items.Nodup
      ∧ (∀ i ∈ gr.items, i < db0.tables.length) ∧ ∀ x ∈ acc, x.name ≠ gr.name := by
  unfold groupAddStep at h
  obtain ⟨gr, hgr, h⟩ := bind_ok _ _ _ h
  obtain ⟨h1, h2, h3⟩ := buildGroup_ok _ _ _ hgr
  by_cases hc : (acc.any (·.name == gr.name)) = true
  · simp [hc, throw, throwThe, MonadExceptOf.throw] at h
  · simp only [hc, Bool.false_eq_true, ↓reduceIte, pure, Except.pure, Except.ok.injEq] at h
    refine ⟨gr, h.symm, h2, h1, h3, ?_⟩
    intro x hx
    simp only [Bool.not_eq_true, List.any_eq_false] at hc
    simpa using hc x hx

/-! ### references -/

theorem colEq_tables (db db' : Db) (h : db.tables = db'.tables) (a b c d : Nat) :
    Dbml.colEq db a b c d = Dbml.colEq db' a b c d := by
  unfold Dbml.colEq
  rw [h]

theorem refEq_tables (db db' : Db) (h : db.tables = db'.tables) (a b : Ref) :
    refEq db a b = refEq db' a b := by
  unfold refEq
  simp only [colEq_tables db db' h]

theorem refStep_ok (db1 : Db) (acc : List Ref) (rb : Bp.RefBp) (acc' : List Ref)
    (h : refStep db1 acc rb = .ok acc') :
    ∃ r, acc' = acc ++ [r] ∧ buildRef db1 rb = .ok r ∧ ∀ m ∈ acc, refEq db1 r m = false := by
  unfold refStep at h
  obtain ⟨r, hr, h⟩ := bind_ok _ _ _ h
  by_cases hc : (acc.any (fun m => refEq { db1 with refs := acc } r m)) = true
  · simp [hc, throw, throwThe, MonadExceptOf.throw] at h
  · simp only [hc, Bool.false_eq_true, ↓reduceIte, pure, Except.pure, Except.ok.injEq] at h
    refine ⟨r, h.symm, hr, ?_⟩
    intro m hm
    simp only [Bool.not_eq_true, List.any_eq_false] at hc
    have := hc m hm
    rw [refEq_tables { db1 with refs := acc } db1 rfl] at this
    simpa using this

/-! ### the database that `build_database` returns -/

structure RuleAbiding (db : Db) : Prop where
  tables : db.tables.Pairwise DisjointKeys
  enums : db.enums.Pairwise EnumsDiffer
  groups : db.groups.Pairwise (fun a b => a.name ≠ b.name)
  groupItems : ∀ g ∈ db.groups, g.items.Nodup ∧ ∀ i ∈ g.items, i < db.tables.length
  refs : db.refs.Pairwise (fun m r => refEq db r m = false)

theorem pairwise_snoc {α} (R : α → α → Prop) (l : List α) (x : α) (hl : l.Pairwise R)
    (hx : ∀ a ∈ l, R a x) : (l ++ [x]).Pairwise R := by
  rw [List.pairwise_append]
  exact ⟨hl, by simp, by intro a ha b hb; simp at hb; subst hb; exact hx a ha⟩

/-- **C06, database level.** Whatever `build_database` returns abides by every uniqueness rule, and it
    holds every declared table, enum, group and reference, in order, under its declared name. Hence a
    document declaring two tables with one schema and name (or clashing aliases), two enums with one
    schema and name, two groups with one name, one table twice in a group, or one reference twice
    cannot yield a database. -/
theorem build_rule_abiding (ap : Bool) (es : List Bp.Elem) (db : Db)
    (h : buildDatabase ap es = .ok db) :
    RuleAbiding db
    ∧ db.tables.map (fun t => (t.schema, t.name)) = (tableBps es).map (fun t => (t.schema, t.name))
    ∧ db.enums.map (fun e => (e.schema, e.name)) = (enumBps es).map (fun e => (e.schema, e.name))
    ∧ db.groups.map (·.name) = (groupBps es).map (·.name)
    ∧ db.refs.length = (refBlueprints es).length := by
  unfold buildDatabase at h
  obtain ⟨enums, hE, h⟩ := bind_ok _ _ _ h
  obtain ⟨tables, hT, h⟩ := bind_ok _ _ _ h
  obtain ⟨groups, hG, h⟩ := bind_ok _ _ _ h
  obtain ⟨project, hP, h⟩ := bind_ok _ _ _ h
  obtain ⟨refs, hR, h⟩ := bind_ok _ _ _ h
  simp only [pure, Except.pure, Except.ok.injEq] at h
  subst h
  -- enums
  have iE := foldlM_inv enumStep (fun acc => acc.Pairwise EnumsDiffer)
    (by
      intro acc eb acc' hinv hs
      unfold enumStep at hs
      obtain ⟨e, _, hs⟩ := bind_ok _ _ _ hs
      obtain ⟨rfl, hd⟩ := addEnum_ok _ _ _ hs
      exact pairwise_snoc _ _ _ hinv hd) _ _ _ List.Pairwise.nil hE
  have nE := foldlM_snoc enumStep (fun (e : Enum) => (e.schema, e.name)) (fun (e : Bp.EnumBp) => (e.schema, e.name))
    (by
      intro acc eb acc' hs
      unfold enumStep at hs
      obtain ⟨e, he, hs⟩ := bind_ok _ _ _ hs
      obtain ⟨rfl, _⟩ := addEnum_ok _ _ _ hs
      obtain ⟨h1, h2⟩ := buildEnum_name _ _ he
      exact ⟨e, rfl, by rw [h1, h2]⟩) _ _ _ hE
  -- tables
  have iT := foldlM_inv (tableStep enums) (fun acc => acc.Pairwise DisjointKeys)
    (by
      intro acc tb acc' hinv hs
      unfold tableStep at hs
      obtain ⟨t, _, hs⟩ := bind_ok _ _ _ hs
      obtain ⟨rfl, hd⟩ := addTable_ok _ _ _ hs
      exact pairwise_snoc _ _ _ hinv hd) _ _ _ List.Pairwise.nil hT
  have nT := foldlM_snoc (tableStep enums) (fun (t : Table) => (t.schema, t.name)) (fun (t : Bp.TableBp) => (t.schema, t.name))
    (by
      intro acc tb acc' hs
      unfold tableStep at hs
      obtain ⟨t, ht, hs⟩ := bind_ok _ _ _ hs
      obtain ⟨rfl, _⟩ := addTable_ok _ _ _ hs
      obtain ⟨h1, h2⟩ := buildTable_name _ _ _ ht
      exact ⟨t, rfl, by rw [h1, h2]⟩) _ _ _ hT
  -- groups
  have iG := foldlM_inv (groupAddStep { tables := tables, enums := enums, allowProps := ap })
    (fun acc => acc.Pairwise (fun a b => a.name ≠ b.name)
      ∧ ∀ g ∈ acc, g.items.Nodup ∧ ∀ i ∈ g.items, i < tables.length)
    (by
      intro acc gb acc' hinv hs
      obtain ⟨gr, rfl, _, hnd, hrange, hdiff⟩ := groupAddStep_ok _ _ _ _ hs
      refine ⟨pairwise_snoc _ _ _ hinv.1 hdiff, ?_⟩
      intro g hg
      rcases List.mem_append.mp hg with hg | hg
      · exact hinv.2 g hg
      · simp at hg; subst hg; exact ⟨hnd, hrange⟩) _ _ _ ⟨List.Pairwise.nil, by simp⟩ hG
  have nG := foldlM_snoc (groupAddStep { tables := tables, enums := enums, allowProps := ap })
    (fun (g : Group) => g.name) (fun (g : Bp.GroupBp) => g.name)
    (by
      intro acc gb acc' hs
      obtain ⟨gr, rfl, hn, _⟩ := groupAddStep_ok _ _ _ _ hs
      exact ⟨gr, rfl, hn⟩) _ _ _ hG
  -- references
  let db1 : Db := { tables := tables, enums := enums, allowProps := ap, groups := groups,
                    sticky := (stickyBps es).map buildSticky, project := project }
  have iR := foldlM_inv (refStep db1) (fun acc => acc.Pairwise (fun m r => refEq db1 r m = false))
    (by
      intro acc rb acc' hinv hs
      obtain ⟨r, rfl, _, hd⟩ := refStep_ok _ _ _ _ hs
      exact pairwise_snoc _ _ _ hinv hd) _ _ _ List.Pairwise.nil hR
  have nR := foldlM_snoc (refStep db1) (fun (_ : Ref) => ()) (fun (_ : Bp.RefBp) => ())
    (by
      intro acc rb acc' hs
      obtain ⟨r, rfl, _, _⟩ := refStep_ok _ _ _ _ hs
      exact ⟨r, rfl, rfl⟩) _ _ _ hR
  refine ⟨⟨iT, iE, iG.1, iG.2, ?_⟩, ?_, ?_, ?_, ?_⟩
  · refine iR.imp ?_
    intro m r hmr
    exact (refEq_tables _ db1 rfl r m).trans hmr
  · simpa using nT
  · simpa using nE
  · simpa using nG
  · have := congrArg List.length nR
    simpa using this

/-- the error of the enum rule is DatabaseValidationError -/
theorem enumStep_error (acc : List Enum) (eb : Bp.EnumBp) (e : PErr) (h : enumStep acc eb = .error e) :
    e = .lib "DatabaseValidationError" := by
  unfold enumStep buildEnum at h
  simp only [pure, Except.pure, bind, Except.bind] at h
  exact addEnum_error _ _ _ h

end C06
end PyDBML
