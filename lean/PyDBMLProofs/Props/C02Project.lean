/-
C01/C02 — the project as an element form (`EForm`, see C02Doc.lean): `Project "name" {` + one `key: 'value'` line per
item + `}`.
-/
import PyDBMLProofs.Props.C02Group
import PyDBMLProofs.Props.C02Flags
namespace PyDBML
namespace C02
open Lex Grammar Build

theorem nameChar_not_space (c : Char) (h : isNameChar c = true) : isSpaceChar c = false := by
  simp only [isNameChar, isAlnum, isAlpha, isDigit, Bool.or_eq_true, Bool.and_eq_true, decide_eq_true_eq] at h
  have hn : (97 ≤ c.toNat ∧ c.toNat ≤ 122) ∨ (65 ≤ c.toNat ∧ c.toNat ≤ 90) ∨ (48 ≤ c.toNat ∧ c.toNat ≤ 57) ∨ c.toNat = 95 := by
    rcases h with ((⟨h1, h2⟩ | ⟨h1, h2⟩) | ⟨h1, h2⟩) | h
    · have a1 : ('a' : Char).toNat ≤ c.toNat := h1
      have a2 : c.toNat ≤ ('z' : Char).toNat := h2
      simp at a1 a2; omega
    · have a1 : ('A' : Char).toNat ≤ c.toNat := h1
      have a2 : c.toNat ≤ ('Z' : Char).toNat := h2
      simp at a1 a2; omega
    · have a1 : ('0' : Char).toNat ≤ c.toNat := h1
      have a2 : c.toNat ≤ ('9' : Char).toNat := h2
      simp at a1 a2; omega
    · subst h; right; right; right; rfl
  unfold isSpaceChar
  simp only [Bool.or_eq_false_iff, Bool.and_eq_false_iff, decide_eq_false_iff_not, beq_eq_false_iff_ne, ne_eq]
  omega

theorem flatMap_congr_mem' {α β : Type} {f g : α → List β} : ∀ (l : List α), (∀ a ∈ l, f a = g a) →
    l.flatMap f = l.flatMap g := by
  intro l
  induction l with
  | nil => intro _; rfl
  | cons a r ih =>
    intro h
    rw [List.flatMap_cons, List.flatMap_cons, h a (by simp), ih (fun b hb => h b (by simp [hb]))]

/-- a caseless prefix test that fails on a prefix of the pattern fails on the pattern -/
theorem swc_false_of_prefix (s p q : Str) (h : startsWithCaseless s p = false) : startsWithCaseless s (p ++ q) = false := by
  induction p generalizing s with
  | nil => simp [startsWithCaseless] at h
  | cons y ys ih =>
    cases s with
    | nil => simp [startsWithCaseless]
    | cons x xs =>
      simp only [List.cons_append, startsWithCaseless, Bool.and_eq_false_iff] at h ⊢
      rcases h with h | h
      · exact Or.inl h
      · exact Or.inr (ih xs h)

/-- a project item key the round trip covers: a bare identifier that does not begin (in any letter case) with `note` -
    such a key is read as the project's note -/
def PKeyOK (k : Str) : Prop :=
  k ≠ [] ∧ k.all isNameChar = true ∧ ∀ r, startsWithCaseless (k ++ r) "note".toList = false

/-- the body: one `    key: 'value'` line per item -/
def fieldLines : List (Str × Str) → Str
  | [] => []
  | (k, v) :: r => ' ' :: ' ' :: ' ' :: ' ' :: (k ++ ':' :: ' ' :: '\'' :: (prepareTextForDbml v ++ '\'' :: '\n' :: fieldLines r))

def projectText (n : Str) (items : List (Str × Str)) : Str :=
  'P' :: 'r' :: 'o' :: 'j' :: 'e' :: 'c' :: 't' :: ' ' :: '"' :: (n ++ '"' :: ' ' :: '{' :: '\n' :: (fieldLines items ++ ['}']))

def projectBpOf (n : Str) (items : List (Str × Str)) : Bp.ProjectBp := { name := n, items := items }

/-- what follows a field line: another field line or the closing brace -/
theorem fields_next (items : List (Str × Str)) (hk : ∀ kv ∈ items, PKeyOK kv.1) (tail : Str) :
    ∃ k x r, fieldLines items ++ '}' :: tail = List.replicate k ' ' ++ x :: r ∧ isWs x = false ∧ x ≠ '\n' ∧ x ≠ '/' := by
  cases items with
  | nil => exact ⟨0, '}', tail, rfl, by decide, by decide, by decide⟩
  | cons kv r =>
    obtain ⟨k, v⟩ := kv
    obtain ⟨hne, hall, _⟩ := hk (k, v) (by simp)
    obtain ⟨a, as, rfl⟩ : ∃ a as, k = a :: as := by
      cases k with
      | nil => exact absurd rfl hne
      | cons a as => exact ⟨a, as, rfl⟩
    have ha : isNameChar a = true := by simp only [List.all_cons, Bool.and_eq_true] at hall; exact hall.1
    obtain ⟨h1, h2, h3⟩ := nameChar_facts a ha
    exact ⟨4, a, as ++ ':' :: ' ' :: '\'' :: (prepareTextForDbml v ++ '\'' :: '\n' :: (fieldLines r ++ '}' :: tail)),
      by simp [fieldLines, List.replicate], h1, h2, h3⟩

theorem skipNl_stay_fields (c : Cur) (items : List (Str × Str)) (hk : ∀ kv ∈ items, PKeyOK kv.1) (tail : Str)
    (hc : c.rest = fieldLines items ++ '}' :: tail) : skipNl c = .ok () c := by
  obtain ⟨k, x, r, he, hw, h1, h2⟩ := fields_next items hk tail
  have hN : Next c x r := skipWs_rest_spaces c k x r (by rw [hc, he]) hw
  obtain ⟨q1, q2⟩ := quiet_of_next c x r hN h1 h2
  exact skipNl_stay c q1 q2

/-- one field line -/
theorem projectElement_field (c : Cur) (k v : Str) (items : List (Str × Str)) (tail : Str)
    (hc : c.rest = fieldLines ((k, v) :: items) ++ '}' :: tail) (hp : c.pastEnd = false) (hk : PKeyOK k)
    (hks : ∀ kv ∈ items, PKeyOK kv.1) (hv : Plain v) (h3 : hasTriple v = false) :
    ∃ c', projectElement c = .ok (PrjElem.field k v) c' ∧ c'.rest = fieldLines items ++ '}' :: tail ∧ c'.pastEnd = false := by
  have hs0 : skipNl c = .ok () c := skipNl_stay_fields c ((k, v) :: items) (by
    intro kv h; simp only [List.mem_cons] at h; rcases h with rfl | h; exact hk; exact hks kv h) tail hc
  obtain ⟨hne, hall, hnote⟩ := hk
  obtain ⟨a, as, rfl⟩ : ∃ a as, k = a :: as := by
    cases k with
    | nil => exact absurd rfl hne
    | cons a as => exact ⟨a, as, rfl⟩
  have ha : isNameChar a = true := by simp only [List.all_cons, Bool.and_eq_true] at hall; exact hall.1
  have haw := (nameChar_facts a ha).1
  have hN : (skipWs c).rest = (a :: as) ++ ':' :: ' ' :: '\'' :: (prepareTextForDbml v ++ '\'' :: '\n' :: (fieldLines items ++ '}' :: tail)) := by
    have := skipWs_rest_spaces c 4 a (as ++ ':' :: ' ' :: '\'' :: (prepareTextForDbml v ++ '\'' :: '\n' :: (fieldLines items ++ '}' :: tail)))
      (by rw [hc]; simp [fieldLines, List.replicate]) haw
    simpa using this
  have hNx : Next c a (as ++ ':' :: ' ' :: '\'' :: (prepareTextForDbml v ++ '\'' :: '\n' :: (fieldLines items ++ '}' :: tail))) := by
    unfold Next; rw [hN]; rfl
  have hnr : noteRule c = .fail := by
    unfold noteRule
    have h4 := hnote (':' :: ' ' :: '\'' :: (prepareTextForDbml v ++ '\'' :: '\n' :: (fieldLines items ++ '}' :: tail)))
    have : startsWithCaseless ((a :: as) ++ ':' :: ' ' :: '\'' :: (prepareTextForDbml v ++ '\'' :: '\n' :: (fieldLines items ++ '}' :: tail)))
        "note:".toList = false := swc_false_of_prefix _ "note".toList [':'] h4
    simp only [bind, pbind, clit_fail "note:" c _ _ hNx (by simpa using this)]
  have hno : noteObject c = .fail := by
    unfold noteObject
    simp only [bind, pbind, ckw_fail "note" c _ _ hNx (by simpa using hnote _)]
  obtain ⟨c1, hnm, hr1, hp1⟩ := name_ok c (a :: as) _ hN (by simp) hall (by intro y hy; simp at hy; subst hy; decide) hp
  have hN1 : Next c1 ':' (' ' :: '\'' :: (prepareTextForDbml v ++ '\'' :: '\n' :: (fieldLines items ++ '}' :: tail))) :=
    skipWs_rest_head c1 ':' _ hr1 (by decide)
  obtain ⟨q1, q2⟩ := quiet_of_next c1 ':' _ hN1 (by decide) (by decide)
  have hs1 := skipNl_stay c1 q1 q2
  obtain ⟨c2, hcol, hr2, hp2⟩ := sym_ok ":" ':' rfl c1 _ hN1 hp1
  have hN2 : Next c2 '\'' (prepareTextForDbml v ++ '\'' :: '\n' :: (fieldLines items ++ '}' :: tail)) :=
    skipWs_rest_spaces c2 1 '\'' _ (by rw [hr2]; rfl) (by decide)
  obtain ⟨q3, q4⟩ := quiet_of_next c2 '\'' _ hN2 (by decide) (by decide)
  have hs2 := skipNl_stay c2 q3 q4
  obtain ⟨c3, hsl, hr3, hp3⟩ := stringLiteral_ok c2 v ('\n' :: (fieldLines items ++ '}' :: tail)) hN2 hp2 (oneLine_of_plain v hv) h3
    (Or.inr (by simp))
  have hpf : projectField c = .ok (a :: as, v) c3 := by
    unfold projectField
    simp only [bind, pbind, hnm, hs1, hcol, hs2, cut, hsl, pure, ppure]
  have hN3 : Next c3 '\n' (fieldLines items ++ '}' :: tail) := skipWs_rest_head c3 '\n' _ hr3 (by decide)
  obtain ⟨c4, hs3, hr4, hp4⟩ := skipNl_one c3 _ hN3 hp3 (by
    intro d hd _
    obtain ⟨k', x, r, he, hw, h1, h2⟩ := fields_next items hks tail
    have : Next d x r := skipWs_rest_spaces d k' x r (by rw [hd, he]) hw
    exact quiet_of_next d x r this h1 h2)
  refine ⟨c4, ?_, hr4, hp4⟩
  unfold projectElement
  simp only [bind, pbind, hs0, alt, hnr, hno, hpf, hs3, pure, ppure]

/-- at the closing brace no item starts -/
theorem projectElement_fail_brace (c : Cur) (tail : Str) (hc : c.rest = '}' :: tail) : projectElement c = .fail := by
  have hN : Next c '}' tail := skipWs_rest_head c '}' _ hc (by decide)
  obtain ⟨q1, q2⟩ := quiet_of_next c '}' _ hN (by decide) (by decide)
  have hs0 : skipNl c = .ok () c := skipNl_stay c q1 q2
  have hnr : noteRule c = .fail := by
    unfold noteRule
    simp only [bind, pbind, clit_fail "note:" c _ _ hN (swc_ne '}' _ "note:" 'n' _ rfl (by decide))]
  have hno : noteObject c = .fail := by
    unfold noteObject
    simp only [bind, pbind, ckw_fail "note" c _ _ hN (swc_ne '}' _ "note" 'n' _ rfl (by decide))]
  have hnm : name c = .fail := name_fail c '}' tail hN (by decide) (by decide)
  unfold projectElement projectField
  simp only [bind, pbind, hs0, alt, hnr, hno, hnm]

theorem fieldLines_length (items : List (Str × Str)) : items.length ≤ (fieldLines items).length := by
  induction items with
  | nil => simp [fieldLines]
  | cons kv r ih => obtain ⟨k, v⟩ := kv; simp [fieldLines]; omega

theorem many_fields (items : List (Str × Str)) (tail : Str) (hk : ∀ kv ∈ items, PKeyOK kv.1)
    (hv : ∀ kv ∈ items, Plain kv.2 ∧ hasTriple kv.2 = false) :
    ∀ (fuel : Nat) (c : Cur), items.length < fuel → c.rest = fieldLines items ++ '}' :: tail → c.pastEnd = false →
      ∃ c', many projectElement fuel c = .ok (items.map fun kv => PrjElem.field kv.1 kv.2) c' ∧ c'.rest = '}' :: tail
        ∧ c'.pastEnd = false := by
  induction items with
  | nil =>
    intro fuel c hf hc hp
    obtain ⟨f, rfl⟩ : ∃ f, fuel = f + 1 := ⟨fuel - 1, by simp at hf; omega⟩
    refine ⟨c, ?_, by simpa [fieldLines] using hc, hp⟩
    rw [many]
    simp [projectElement_fail_brace c tail (by simpa [fieldLines] using hc)]
  | cons kv r ih =>
    obtain ⟨k, v⟩ := kv
    intro fuel c hf hc hp
    obtain ⟨f, rfl⟩ : ∃ f, fuel = f + 1 := ⟨fuel - 1, by simp at hf; omega⟩
    obtain ⟨c1, hel, hr1, hp1⟩ := projectElement_field c k v r tail hc hp (hk (k, v) (by simp))
      (fun q hq => hk q (by simp [hq])) (hv (k, v) (by simp)).1 (hv (k, v) (by simp)).2
    obtain ⟨c2, hm, hr2, hp2⟩ := ih (fun q hq => hk q (by simp [hq])) (fun q hq => hv q (by simp [hq])) f c1
      (by simp at hf; omega) hr1 hp1
    refine ⟨c2, ?_, hr2, hp2⟩
    have hlen : c1.rest.length ≠ c.rest.length := by
      rw [hr1, hc]; simp [fieldLines] <;> omega
    rw [many]
    simp only [hel, hlen, decide_false, Bool.false_and, Bool.false_eq_true, ↓reduceIte, hm, List.map_cons]

theorem filterMap_fields {β} (items : List (Str × Str)) (f : PrjElem → Option β) (g : Str × Str → β)
    (h : ∀ k v, f (PrjElem.field k v) = some (g (k, v))) :
    (items.map fun kv => PrjElem.field kv.1 kv.2).filterMap f = items.map g := by
  induction items with
  | nil => rfl
  | cons a r ih => obtain ⟨k, v⟩ := a; simp [h, ih]

theorem foldl_fields {β} (items : List (Str × Str)) (f : β → PrjElem → β) (h : ∀ a k v, f a (PrjElem.field k v) = a) (a : β) :
    (items.map fun kv => PrjElem.field kv.1 kv.2).foldl f a = a := by
  induction items generalizing a with
  | nil => rfl
  | cons x r ih => obtain ⟨k, v⟩ := x; simp [h, ih]

/-- the project rule once its keyword - in whatever letter case - has been read -/
theorem projectRule_from (c c0 c1 : Cur) (nm n : Str) (items : List (Str × Str)) (post : Str) (Q : Cur → Prop)
    (hb : cBefore c = .ok [] c0) (hkw : clit "project" c0 = .ok () c1)
    (hr1 : c1.rest = ' ' :: (nm ++ ' ' :: '{' :: '\n' :: (fieldLines items ++ '}' :: post))) (hp1 : c1.pastEnd = false)
    (hn : Spells nm n) (hk : ∀ kv ∈ items, PKeyOK kv.1) (hv : ∀ kv ∈ items, Plain kv.2 ∧ hasTriple kv.2 = false)
    (hd : items.Pairwise (fun a b => a.1 ≠ b.1))
    (hend : ∀ c7 : Cur, c7.rest = post → c7.pastEnd = false → ∃ c9, (alt lineEnd stringEnd) c7 = .ok () c9 ∧ Q c9) :
    ∃ c9, projectRule c = .ok (projectBpOf n items) c9 ∧ Q c9 := by
  obtain ⟨_, ⟨n0, nr, hn0, hn0w, hn0n, hn0s⟩, hname⟩ := hn
  have hN1' : Next c1 n0 (nr ++ ' ' :: ('{' :: '\n' :: (fieldLines items ++ '}' :: post))) :=
    skipWs_rest_spaces c1 1 n0 _ (by rw [hr1, hn0]; rfl) hn0w
  obtain ⟨q1, q2⟩ := quiet_of_next c1 n0 _ hN1' hn0n hn0s
  have hs1 : skipNl c1 = .ok () c1 := skipNl_stay c1 q1 q2
  obtain ⟨c2, hnm, hr2, hp2⟩ := hname c1 _ (by rw [hn0]; exact hN1') hp1
  have hN2 : Next c2 '{' ('\n' :: (fieldLines items ++ '}' :: post)) := skipWs_rest_spaces c2 1 '{' _ (by rw [hr2]; rfl) (by decide)
  obtain ⟨q3, q4⟩ := quiet_of_next c2 '{' _ hN2 (by decide) (by decide)
  have hs2 : skipNl c2 = .ok () c2 := skipNl_stay c2 q3 q4
  obtain ⟨c3, hbr, hr3, hp3⟩ := sym_ok "{" '{' rfl c2 _ hN2 hp2
  have hN3 : Next c3 '\n' (fieldLines items ++ '}' :: post) := skipWs_rest_head c3 '\n' _ hr3 (by decide)
  obtain ⟨c4, hs3, hr4, hp4⟩ := skipNl_one c3 _ hN3 hp3 (by
    intro d hd' _
    obtain ⟨k, x, r, he, hw, h1, h2⟩ := fields_next items hk post
    have : Next d x r := skipWs_rest_spaces d k x r (by rw [hd', he]) hw
    exact quiet_of_next d x r this h1 h2)
  have hfuel : items.length < c4.rest.length + 2 := by
    rw [hr4]; have := fieldLines_length items; simp; omega
  obtain ⟨c5, hm, hr5, hp5⟩ := many_fields items post hk hv (c4.rest.length + 2) c4 hfuel hr4 hp4
  have hmany : manyF projectElement c4 = .ok (items.map fun kv => PrjElem.field kv.1 kv.2) c5 := by
    unfold manyF fuelOf; exact hm
  have hN5 : Next c5 '}' post := skipWs_rest_head c5 '}' _ hr5 (by decide)
  obtain ⟨q5, q6⟩ := quiet_of_next c5 '}' _ hN5 (by decide) (by decide)
  have hs5 : skipNl c5 = .ok () c5 := skipNl_stay c5 q5 q6
  obtain ⟨c6, hcl, hr6, hp6⟩ := sym_ok "}" '}' rfl c5 _ hN5 hp5
  obtain ⟨c9, hend9, hQ⟩ := hend c6 hr6 hp6
  refine ⟨c9, ?_, hQ⟩
  unfold projectRule
  simp only [bind, pbind, hb, hkw, hs1, cut, hnm, hs2, hbr, hs3, hmany, hs5, hcl, hend9, pure, ppure, projectBpOf, joinBefore]
  rw [filterMap_fields items _ id (fun _ _ => rfl), foldl_fields _ _ (fun _ _ _ => rfl)]
  simp [dictOf_distinct items hd]

/-- the project rule on the rendered text, after the blank lines before it and before whatever follows -/
theorem projectRule_okP (c c0 : Cur) (n : Str) (items : List (Str × Str)) (post : Str) (Q : Cur → Prop)
    (hb : cBefore c = .ok [] c0) (hc : c0.rest = projectText n items ++ post) (hp : c0.pastEnd = false)
    (hn : NameOK n) (hk : ∀ kv ∈ items, PKeyOK kv.1) (hv : ∀ kv ∈ items, Plain kv.2 ∧ hasTriple kv.2 = false)
    (hd : items.Pairwise (fun a b => a.1 ≠ b.1))
    (hend : ∀ c7 : Cur, c7.rest = post → c7.pastEnd = false → ∃ c9, (alt lineEnd stringEnd) c7 = .ok () c9 ∧ Q c9) :
    ∃ c9, projectRule c = .ok (projectBpOf n items) c9 ∧ Q c9 := by
  have hc' : c0.rest = ['P', 'r', 'o', 'j', 'e', 'c', 't'] ++ ' ' :: '"' :: (n ++ '"' :: ' ' :: '{' :: '\n' ::
      (fieldLines items ++ '}' :: post)) := by rw [hc]; simp [projectText]
  have hN : (skipWs c0).rest = ['P', 'r', 'o', 'j', 'e', 'c', 't'] ++ ' ' :: '"' :: (n ++ '"' :: ' ' :: '{' :: '\n' ::
      (fieldLines items ++ '}' :: post)) := by
    rw [skipWs_rest_head c0 'P' _ (by rw [hc']; rfl) (by decide)]; rfl
  obtain ⟨c1, hkw, hr1, hp1⟩ := clit_ok "project" c0 ['P', 'r', 'o', 'j', 'e', 'c', 't'] _ hN (by decide)
    (by simp [startsWithCaseless] <;> decide) hp
  exact projectRule_from c c0 c1 ('"' :: (n ++ ['"'])) n items post Q hb hkw (by rw [hr1]; simp) hp1 (spells_quoted n hn) hk hv hd hend

/-! ### the element form -/

/-- what the round trip asks of a project: a quoted name, at least one item, keys that are bare identifiers (not
    beginning with `note`) and pairwise different, values that are plain lines -/
structure ProjectOK (n : Str) (items : List (Str × Str)) : Prop where
  name : NameOK n
  ne : items ≠ []
  keys : ∀ kv ∈ items, PKeyOK kv.1
  values : ∀ kv ∈ items, Plain kv.2 ∧ hasTriple kv.2 = false
  distinct : items.Pairwise (fun a b => a.1 ≠ b.1)

theorem fieldLines_no_tab : ∀ (items : List (Str × Str)), (∀ kv ∈ items, PKeyOK kv.1) → (∀ kv ∈ items, Plain kv.2 ∧ hasTriple kv.2 = false) →
    ∀ c ∈ fieldLines items, c ≠ '\t' := by
  intro items
  induction items with
  | nil => intro _ _ c hc; simp [fieldLines] at hc
  | cons kv r ih =>
    obtain ⟨k, v⟩ := kv
    intro hk hv c hc
    have e : fieldLines ((k, v) :: r) = [' ', ' ', ' ', ' '] ++ k ++ [':', ' ', '\''] ++ prepareTextForDbml v ++ ['\'', '\n'] ++ fieldLines r := by
      simp [fieldLines]
    rw [e] at hc
    simp only [List.mem_append] at hc
    rcases hc with ((((h | h) | h) | h) | h) | h
    · exact (by decide : ∀ c ∈ [' ', ' ', ' ', ' '], c ≠ '\t') c h
    · have hall := (hk (k, v) (by simp)).2.1
      exact nameChar_not_tab c (List.all_eq_true.mp hall c h)
    · exact (by decide : ∀ c ∈ [':', ' ', '\''], c ≠ '\t') c h
    · rcases prepare_mem _ c h with h' | rfl
      · exact ((hv (k, v) (by simp)).1 c h').2
      · decide
    · exact (by decide : ∀ c ∈ ['\'', '\n'], c ≠ '\t') c h
    · exact ih (fun q hq => hk q (by simp [hq])) (fun q hq => hv q (by simp [hq])) c h

def projectE (ap : Bool) (n : Str) (items : List (Str × Str)) (h : ProjectOK n items) : EForm ap where
  pre := none
  head := 'P'
  body := (projectText n items).tail
  elem := Bp.Elem.project (projectBpOf n items)
  headOK := by decide
  headAscii := by decide
  preOK := trivial
  noTab := by
    intro c hc
    have e : 'P' :: (projectText n items).tail = ['P', 'r', 'o', 'j', 'e', 'c', 't', ' ', '"'] ++ n ++ ['"', ' ', '{', '\n']
        ++ fieldLines items ++ ['}'] := by simp [projectText]
    rw [e] at hc
    simp only [List.mem_append] at hc
    rcases hc with (((h' | h') | h') | h') | h'
    · exact (by decide : ∀ c ∈ ['P', 'r', 'o', 'j', 'e', 'c', 't', ' ', '"'], c ≠ '\t') c h'
    · exact (h.name c h').2.2.2
    · exact (by decide : ∀ c ∈ ['"', ' ', '{', '\n'], c ≠ '\t') c h'
    · exact fieldLines_no_tab items h.keys h.values c h'
    · exact (by decide : ∀ c ∈ ['}'], c ≠ '\t') c h'
  parse := by
    intro c c0 post hb hr0 hp0 _ hends
    have hr0' : c0.rest = projectText n items ++ post := by rw [hr0]; simp [projectText]
    have hN0 : Next c0 'P' _ := skipWs_rest_head c0 'P' _ (by rw [hr0]) (by decide)
    have htab : tableRule ap c = .fail :=
      tableRule_fail' ap c c0 [] hb (ckw_fail _ c0 _ _ hN0 (swc_ne 'P' _ "table" 't' _ rfl (by decide)))
    have href : refRule c = .fail :=
      refRule_fail' c c0 [] hb (clit_fail _ c0 _ _ hN0 (swc_ne 'P' _ "ref" 'r' _ rfl (by decide)))
    have henum : enumRule c = .fail :=
      enumRule_fail' c c0 [] hb (clit_fail _ c0 _ _ hN0 (swc_ne 'P' _ "enum" 'e' _ rfl (by decide)))
    have hgrp : tableGroupRule c = .fail :=
      tableGroupRule_fail' c c0 [] hb (clit_fail _ c0 _ _ hN0 (swc_ne 'P' _ "TableGroup" 'T' _ rfl (by decide)))
    obtain ⟨c9, hrule, hQ⟩ := projectRule_okP c c0 n items post (After post) hb hr0' hp0 h.name h.keys h.values h.distinct
      (fun c7 hr7 hp7 => refEnd_afterE c7 post hends hr7 hp7)
    refine ⟨c9, ?_, hQ⟩
    unfold element alt
    simp only [bind, pbind, htab, href, henum, hgrp, hrule, pure, ppure]

theorem projectE_text (ap : Bool) (n : Str) (items : List (Str × Str)) (h : ProjectOK n items) :
    (projectE ap n items h).text = projectText n items := by
  simp [EForm.text, projectE, commentText, projectText]

/-! ### rendering -/

/-- the item lines as the renderer writes them before indenting -/
def fieldStr (kv : Str × Str) : Str := kv.1 ++ ':' :: ' ' :: '\'' :: (prepareTextForDbml kv.2 ++ ['\''])

theorem rstrip_nl_lines : ∀ (ls : List Str), ls ≠ [] → (∀ l ∈ ls, l ≠ [] ∧ l.getLast? ≠ some '\n') →
    rstripSet (· = '\n') (ls.flatMap fun l => l ++ ['\n']) = joinNL ls := by
  intro ls
  induction ls with
  | nil => intro h; exact absurd rfl h
  | cons l r ih =>
    intro _ hl
    have hl0 := hl l (by simp)
    cases r with
    | nil =>
      simp only [List.flatMap_cons, List.flatMap_nil, List.append_nil, joinNL]
      unfold rstripSet
      obtain ⟨x, hx⟩ : ∃ x, l.getLast? = some x := by
        cases hg : l.getLast? with
        | none => exact absurd (List.getLast?_eq_none_iff.mp hg) hl0.1
        | some x => exact ⟨x, rfl⟩
      have hxn : x ≠ '\n' := by intro e; rw [e] at hx; exact hl0.2 hx
      obtain ⟨pre, rfl⟩ : ∃ pre, l = pre ++ [x] := by
        have := List.getLast?_eq_some_iff.mp hx
        obtain ⟨pre, hpre⟩ := this
        exact ⟨pre, hpre⟩
      simp [List.reverse_append, List.dropWhile, hxn]
    | cons l2 r2 =>
      have ih' := ih (by simp) (fun q hq => hl q (by simp [hq]))
      have e1 : (l :: l2 :: r2).flatMap (fun l => l ++ ['\n']) = (l ++ ['\n']) ++ (l2 :: r2).flatMap (fun l => l ++ ['\n']) := by simp
      rw [e1, show joinNL (l :: l2 :: r2) = l ++ '\n' :: joinNL (l2 :: r2) from rfl, ← ih']
      generalize hB : (l2 :: r2).flatMap (fun l => l ++ ['\n']) = B
      have hBne : rstripSet (· = '\n') B ≠ [] := by
        rw [← hB, ih']
        have := (hl l2 (by simp)).1
        cases r2 with
        | nil => simpa [joinNL] using this
        | cons y ys =>
          rw [show joinNL (l2 :: y :: ys) = l2 ++ '\n' :: joinNL (y :: ys) from rfl]
          cases l2 with
          | nil => exact absurd rfl this
          | cons _ _ => simp
      unfold rstripSet at hBne ⊢
      simp only [List.reverse_append, List.append_assoc]
      have hd : ∀ (P Q : Str), P.dropWhile (fun c => decide (c = '\n')) ≠ [] →
          (P ++ Q).dropWhile (fun c => decide (c = '\n')) = P.dropWhile (fun c => decide (c = '\n')) ++ Q := by
        intro P
        induction P with
        | nil => intro Q h; simp at h
        | cons c P ihP =>
          intro Q h
          by_cases hc : c = '\n'
          · subst hc
            simp only [List.cons_append, List.dropWhile_cons, decide_true, ↓reduceIte] at h ⊢
            exact ihP Q h
          · simp [List.dropWhile_cons, hc]
      have hrev : B.reverse.dropWhile (fun c => decide (c = '\n')) ≠ [] := by
        intro h0; apply hBne; rw [h0]; rfl
      rw [hd _ _ hrev]
      simp

theorem renderProject_ok (n : Str) (items : List (Str × Str)) (h : ProjectOK n items) :
    Dbml.renderProject { name := n, items := items } = .ok (projectText n items) := by
  have hq : doublequoteString n = .ok ('"' :: n ++ ['"']) := doublequote_nameOK n h.name
  have hitems : (items.flatMap fun (kv : Str × Str) =>
      if containsChar '\n' kv.2 then kv.1 ++ lit ": \'\'\'" ++ prepareTextForDbml kv.2 ++ lit "\'\'\'\n"
      else kv.1 ++ lit ": '" ++ prepareTextForDbml kv.2 ++ lit "'\n") = (items.map fieldStr).flatMap fun l => l ++ ['\n'] := by
    rw [List.flatMap_map]
    apply flatMap_congr_mem'
    intro kv hkv
    have := containsChar_plain kv.2 (h.values kv hkv).1
    simp [this, fieldStr, lit]
  have hlines : ∀ l ∈ items.map fieldStr, l ≠ [] ∧ l.getLast? ≠ some '\n' := by
    intro l hl
    obtain ⟨kv, _, rfl⟩ := List.mem_map.mp hl
    constructor
    · have := (h.keys kv ‹_›).1
      cases hk : kv.1 with
      | nil => exact absurd hk this
      | cons a as => simp [fieldStr, hk]
    · have e : fieldStr kv = (kv.1 ++ ':' :: ' ' :: '\'' :: prepareTextForDbml kv.2) ++ ['\''] := by simp [fieldStr]
      rw [e, List.getLast?_append]
      simp
  have hstrip := rstrip_nl_lines (items.map fieldStr) (by simpa using h.ne) hlines
  have hbody : Dbml.indent4 (joinNL (items.map fieldStr)) ++ ['\n'] = fieldLines items := by
    rw [indent4_lines (items.map fieldStr) (by simpa using h.ne)]
    · have : ∀ (l : List (Str × Str)), ((l.map fieldStr).flatMap fun l => [' ', ' ', ' ', ' '] ++ l ++ ['\n']) = fieldLines l := by
        intro l
        induction l with
        | nil => rfl
        | cons kv r ih =>
          obtain ⟨k, v⟩ := kv
          have ih' : (r.map fieldStr).flatMap (fun l => ' ' :: ' ' :: ' ' :: ' ' :: (l ++ ['\n'])) = fieldLines r := by simpa using ih
          simp [fieldLines, fieldStr, ih']
      exact this items
    · intro l hl
      obtain ⟨kv, hkv, rfl⟩ := List.mem_map.mp hl
      intro c hc
      have e : fieldStr kv = kv.1 ++ [':', ' ', '\''] ++ prepareTextForDbml kv.2 ++ ['\''] := by simp [fieldStr]
      rw [e] at hc
      simp only [List.mem_append] at hc
      rcases hc with ((h' | h') | h') | h'
      · exact nameChar_not_lineBreak c (List.all_eq_true.mp (h.keys kv hkv).2.1 c h')
      · exact (by decide : ∀ c ∈ [':', ' ', '\''], isLineBreak c = false) c h'
      · rcases prepare_mem _ c h' with h'' | rfl
        · exact ((h.values kv hkv).1 c h'').1
        · decide
      · exact (by decide : ∀ c ∈ ['\''], isLineBreak c = false) c h'
    · intro l hl
      obtain ⟨kv, hkv, rfl⟩ := List.mem_map.mp hl
      obtain ⟨hne, hall, _⟩ := h.keys kv hkv
      cases hk : kv.1 with
      | nil => exact absurd hk hne
      | cons a as =>
        have ha : isNameChar a = true := by rw [hk] at hall; simp only [List.all_cons, Bool.and_eq_true] at hall; exact hall.1
        exact ⟨a, as ++ ':' :: ' ' :: '\'' :: (prepareTextForDbml kv.2 ++ ['\'']), by simp [fieldStr, hk], nameChar_not_space a ha⟩
  unfold Dbml.renderProject
  simp only [hq, Dbml.liftPy, bind, Except.bind, pure, Except.pure, hitems, hstrip, hbody]
  simp [projectText, Dbml.optComment, lit]

end C02
end PyDBML
