/-
C01/C02/C05 — table groups as element forms (`EForm`, see C02Doc.lean): `TableGroup "g" {` + one quoted table name per
line + `}`; the members are resolved by name to the tables of the document.
-/
import PyDBMLProofs.Props.C02DocMore
namespace PyDBML
namespace C02
open Lex Grammar Build

/-! ### the body: one `    "name"` line per member -/

def memberLines : List Str → Str
  | [] => []
  | n :: r => ' ' :: ' ' :: ' ' :: ' ' :: '"' :: (n ++ '"' :: '\n' :: memberLines r)

def groupText (g : Str) (ns : List Str) : Str :=
  'T' :: 'a' :: 'b' :: 'l' :: 'e' :: 'G' :: 'r' :: 'o' :: 'u' :: 'p' :: ' ' :: '"' :: (g ++ '"' :: ' ' :: '{' :: '\n' ::
    (memberLines ns ++ ['}']))

def groupBpOf (g : Str) (ns : List Str) : Bp.GroupBp := { name := g, items := ns }

/-- what follows a member line: another member line or the closing brace -/
theorem members_next (ns : List Str) (tail : Str) :
    ∃ k x r, memberLines ns ++ '}' :: tail = List.replicate k ' ' ++ x :: r ∧ isWs x = false ∧ x ≠ '\n' ∧ x ≠ '/'
      ∧ (x = '"' ∨ x = '}') := by
  cases ns with
  | nil => exact ⟨0, '}', tail, rfl, by decide, by decide, by decide, Or.inr rfl⟩
  | cons n r =>
    exact ⟨4, '"', n ++ '"' :: '\n' :: (memberLines r ++ '}' :: tail), by simp [memberLines, List.replicate],
      by decide, by decide, by decide, Or.inl rfl⟩

theorem skipNl_stay_members (c : Cur) (ns : List Str) (tail : Str) (hc : c.rest = memberLines ns ++ '}' :: tail) :
    skipNl c = .ok () c := by
  obtain ⟨k, x, r, he, hw, h1, h2, _⟩ := members_next ns tail
  have hN : Next c x r := skipWs_rest_spaces c k x r (by rw [hc, he]) hw
  obtain ⟨q1, q2⟩ := quiet_of_next c x r hN h1 h2
  exact skipNl_stay c q1 q2

theorem noteElement_fail (c : Cur) (x : Char) (r : Str) (hN : Next c x r)
    (hx : (pyUpper1 'n' == pyUpper1 x) = false) : noteElement c = .fail := by
  unfold noteElement noteRule noteObject alt
  simp only [bind, pbind, clit_fail "note:" c _ _ hN (swc_ne x _ "note:" 'n' _ rfl hx),
    ckw_fail "note" c _ _ hN (swc_ne x _ "note" 'n' _ rfl hx)]

/-- `table_name` of a group member on a quoted name that no dot follows -/
theorem groupTableName_ok (c : Cur) (n r : Str) (x : Char) (r' : Str) (hn : (skipWs c).rest = '"' :: (n ++ '"' :: r))
    (hr : r = x :: r') (hx : x ≠ '.') (hok : NameOK n) (hp : c.pastEnd = false) :
    ∃ c', groupTableName c = .ok n c' ∧ c'.rest = r ∧ c'.pastEnd = false := by
  obtain ⟨c1, hnm, hr1, hp1⟩ := name_quoted_ok c n r hn hok hp
  have hsk : (skipWs (skipWs c)).rest = '"' :: (n ++ '"' :: r) := by rw [skipWs_idem]; exact hn
  obtain ⟨c1', hnm', hr1', _⟩ := name_quoted_ok (skipWs c) n r hsk hok (by simpa using hp)
  have hraw : nameRaw (skipWs c) = .ok n c1' := by
    unfold nameRaw
    rw [hn]
    simp only [show isWs '"' = false by decide, Bool.false_eq_true, ↓reduceIte]
    exact hnm'
  have hdot : litRaw ['.'] c1' = .fail := litRaw_fail _ c1' (by rw [hr1', hr]; simp [startsWith]; exact fun h => hx h.symm)
  refine ⟨c1, ?_, hr1, hp1⟩
  unfold groupTableName alt
  simp only [bind, pbind, hraw, hdot, hnm]

/-- one member line -/
theorem tgElement_member (c : Cur) (n : Str) (ns : List Str) (tail : Str)
    (hc : c.rest = memberLines (n :: ns) ++ '}' :: tail) (hp : c.pastEnd = false) (hn : NameOK n) :
    ∃ c', tgElement c = .ok (GrpElem.item n) c' ∧ c'.rest = memberLines ns ++ '}' :: tail ∧ c'.pastEnd = false := by
  have hs0 : skipNl c = .ok () c := skipNl_stay_members c (n :: ns) tail hc
  have hN : (skipWs c).rest = '"' :: (n ++ '"' :: ('\n' :: (memberLines ns ++ '}' :: tail))) :=
    skipWs_rest_spaces c 4 '"' _ (by rw [hc]; simp [memberLines]) (by decide)
  have hnote : noteElement c = .fail := noteElement_fail c '"' _ hN (by decide)
  obtain ⟨c1, hgn, hr1, hp1⟩ := groupTableName_ok c n _ '\n' _ hN rfl (by decide) hn hp
  have hN1 : Next c1 '\n' (memberLines ns ++ '}' :: tail) := skipWs_rest_head c1 '\n' _ hr1 (by decide)
  obtain ⟨c2, hs1, hr2, hp2⟩ := skipNl_one c1 _ hN1 hp1 (by
    intro d hd _
    obtain ⟨k, x, r, he, hw, h1, h2, _⟩ := members_next ns tail
    have : Next d x r := skipWs_rest_spaces d k x r (by rw [hd, he]) hw
    exact quiet_of_next d x r this h1 h2)
  refine ⟨c2, ?_, hr2, hp2⟩
  unfold tgElement
  simp only [bind, pbind, hs0, alt, hnote, hgn, hs1, pure, ppure]

/-- at the closing brace no member starts -/
theorem tgElement_fail_brace (c : Cur) (tail : Str) (hc : c.rest = '}' :: tail) : tgElement c = .fail := by
  have hN : Next c '}' tail := skipWs_rest_head c '}' _ hc (by decide)
  obtain ⟨q1, q2⟩ := quiet_of_next c '}' _ hN (by decide) (by decide)
  have hs0 : skipNl c = .ok () c := skipNl_stay c q1 q2
  have hnote : noteElement c = .fail := noteElement_fail c '}' _ hN (by decide)
  have hnm : name c = .fail := name_fail c '}' tail hN (by decide) (by decide)
  have hraw : nameRaw (skipWs c) = .fail := by
    unfold nameRaw
    rw [show (skipWs c).rest = '}' :: tail from hN]
    simp only [show isWs '}' = false by decide, Bool.false_eq_true, ↓reduceIte]
    have : Next (skipWs c) '}' tail := by unfold Next; rw [skipWs_idem]; exact hN
    exact name_fail (skipWs c) '}' tail this (by decide) (by decide)
  have hgn : groupTableName c = .fail := by
    unfold groupTableName alt
    simp only [bind, pbind, hraw, hnm]
  unfold tgElement
  simp only [bind, pbind, hs0, alt, hnote, hgn]

theorem memberLines_length (ns : List Str) : ns.length ≤ (memberLines ns).length := by
  induction ns with
  | nil => simp [memberLines]
  | cons n r ih => simp [memberLines]; omega

theorem many_members (ns : List Str) (tail : Str) (hns : ∀ n ∈ ns, NameOK n) :
    ∀ (fuel : Nat) (c : Cur), ns.length < fuel → c.rest = memberLines ns ++ '}' :: tail → c.pastEnd = false →
      ∃ c', many tgElement fuel c = .ok (ns.map GrpElem.item) c' ∧ c'.rest = '}' :: tail ∧ c'.pastEnd = false := by
  induction ns with
  | nil =>
    intro fuel c hf hc hp
    obtain ⟨f, rfl⟩ : ∃ f, fuel = f + 1 := ⟨fuel - 1, by simp at hf; omega⟩
    refine ⟨c, ?_, by simpa [memberLines] using hc, hp⟩
    rw [many]
    simp [tgElement_fail_brace c tail (by simpa [memberLines] using hc)]
  | cons n r ih =>
    intro fuel c hf hc hp
    obtain ⟨f, rfl⟩ : ∃ f, fuel = f + 1 := ⟨fuel - 1, by simp at hf; omega⟩
    obtain ⟨c1, hel, hr1, hp1⟩ := tgElement_member c n r tail hc hp (hns n (by simp))
    obtain ⟨c2, hm, hr2, hp2⟩ := ih (fun q hq => hns q (by simp [hq])) f c1 (by simp at hf; omega) hr1 hp1
    refine ⟨c2, ?_, hr2, hp2⟩
    have hlen : c1.rest.length ≠ c.rest.length := by
      rw [hr1, hc]; simp [memberLines] <;> omega
    rw [many]
    simp only [hel, hlen, decide_false, Bool.false_and, Bool.false_eq_true, ↓reduceIte, hm, List.map_cons]

theorem filterMap_items (ns : List Str) (f : GrpElem → Option Str) (h : ∀ s, f (GrpElem.item s) = some s) :
    (ns.map GrpElem.item).filterMap f = ns := by
  induction ns with
  | nil => rfl
  | cons a r ih => simp [h, ih]

theorem foldl_items {β} (ns : List Str) (f : β → GrpElem → β) (h : ∀ a s, f a (GrpElem.item s) = a) (a : β) :
    (ns.map GrpElem.item).foldl f a = a := by
  induction ns generalizing a with
  | nil => rfl
  | cons x r ih => simp [h, ih]

theorem tgSettings_fail (c : Cur) (h : sym "[" c = .fail) : tgSettings c = .fail := by
  unfold tgSettings; simp only [bind, pbind, h]

/-- the table-group rule once its keyword - in whatever letter case - has been read -/
theorem tableGroupRule_from (c c0 c1 : Cur) (nm g : Str) (ns : List Str) (post : Str) (Q : Cur → Prop)
    (hb : cBefore c = .ok [] c0) (hk : clit "TableGroup" c0 = .ok () c1)
    (hr1 : c1.rest = ' ' :: (nm ++ ' ' :: '{' :: '\n' :: (memberLines ns ++ '}' :: post))) (hp1 : c1.pastEnd = false)
    (hg : Spells nm g) (hns : ∀ n ∈ ns, NameOK n)
    (hend : ∀ c7 : Cur, c7.rest = post → c7.pastEnd = false → ∃ c9, endRule c7 = .ok () c9 ∧ Q c9) :
    ∃ c9, tableGroupRule c = .ok (groupBpOf g ns) c9 ∧ Q c9 := by
  obtain ⟨_, ⟨n0, nr, hn0, hn0w, _, _⟩, hname⟩ := hg
  have hN1 : (skipWs c1).rest = nm ++ ' ' :: ('{' :: '\n' :: (memberLines ns ++ '}' :: post)) := by
    rw [hn0]
    exact skipWs_rest_spaces c1 1 n0 _ (by rw [hr1, hn0]; rfl) hn0w
  obtain ⟨c2, hnm, hr2, hp2⟩ := hname c1 _ hN1 hp1
  have hN2 : Next c2 '{' ('\n' :: (memberLines ns ++ '}' :: post)) := skipWs_rest_spaces c2 1 '{' _ (by rw [hr2]; rfl) (by decide)
  obtain ⟨q3, q4⟩ := quiet_of_next c2 '{' _ hN2 (by decide) (by decide)
  have hs2 : skipNl c2 = .ok () c2 := skipNl_stay c2 q3 q4
  have hst : opt tgSettings c2 = .ok none c2 := by
    unfold opt; rw [tgSettings_fail c2 (sym_fail "[" c2 _ _ hN2 (by simp [startsWith]))]
  obtain ⟨c3, hbr, hr3, hp3⟩ := sym_ok "{" '{' rfl c2 _ hN2 hp2
  have hN3 : Next c3 '\n' (memberLines ns ++ '}' :: post) := skipWs_rest_head c3 '\n' _ hr3 (by decide)
  obtain ⟨c4, hs3, hr4, hp4⟩ := skipNl_one c3 _ hN3 hp3 (by
    intro d hd _
    obtain ⟨k, x, r, he, hw, h1, h2, _⟩ := members_next ns post
    have : Next d x r := skipWs_rest_spaces d k x r (by rw [hd, he]) hw
    exact quiet_of_next d x r this h1 h2)
  have hfuel : ns.length < c4.rest.length + 2 := by
    rw [hr4]; have := memberLines_length ns; simp; omega
  obtain ⟨c5, hm, hr5, hp5⟩ := many_members ns post hns (c4.rest.length + 2) c4 hfuel hr4 hp4
  have hmany : manyF tgElement c4 = .ok (ns.map GrpElem.item) c5 := by
    unfold manyF fuelOf; exact hm
  have hN5 : Next c5 '}' post := skipWs_rest_head c5 '}' _ hr5 (by decide)
  obtain ⟨q5, q6⟩ := quiet_of_next c5 '}' _ hN5 (by decide) (by decide)
  have hs5 : skipNl c5 = .ok () c5 := skipNl_stay c5 q5 q6
  obtain ⟨c6, hcl, hr6, hp6⟩ := sym_ok "}" '}' rfl c5 _ hN5 hp5
  obtain ⟨c9, hend9, hQ⟩ := hend c6 hr6 hp6
  refine ⟨c9, ?_, hQ⟩
  unfold tableGroupRule
  simp only [bind, pbind, hb, hk, cut, hnm, hs2, hst, hbr, hs3, hmany, hs5, hcl, hend9, pure, ppure, groupBpOf, joinBefore,
    Option.getD_none, List.foldl_nil]
  rw [filterMap_items _ _ (fun _ => rfl), foldl_items _ _ (fun _ _ => rfl)]
  rfl

/-- the table-group rule on the rendered text, after the blank lines before it and before whatever follows -/
theorem tableGroupRule_okP (c c0 : Cur) (g : Str) (ns : List Str) (post : Str) (Q : Cur → Prop)
    (hb : cBefore c = .ok [] c0) (hc : c0.rest = groupText g ns ++ post) (hp : c0.pastEnd = false)
    (hg : NameOK g) (hns : ∀ n ∈ ns, NameOK n)
    (hend : ∀ c7 : Cur, c7.rest = post → c7.pastEnd = false → ∃ c9, endRule c7 = .ok () c9 ∧ Q c9) :
    ∃ c9, tableGroupRule c = .ok (groupBpOf g ns) c9 ∧ Q c9 := by
  have hc' : c0.rest = ['T', 'a', 'b', 'l', 'e', 'G', 'r', 'o', 'u', 'p'] ++ ' ' :: '"' :: (g ++ '"' :: ' ' :: '{' :: '\n' ::
      (memberLines ns ++ '}' :: post)) := by rw [hc]; simp [groupText]
  have hN : (skipWs c0).rest = ['T', 'a', 'b', 'l', 'e', 'G', 'r', 'o', 'u', 'p'] ++ ' ' :: '"' :: (g ++ '"' :: ' ' :: '{' :: '\n' ::
      (memberLines ns ++ '}' :: post)) := by
    rw [skipWs_rest_head c0 'T' _ (by rw [hc']; rfl) (by decide)]; rfl
  obtain ⟨c1, hk, hr1, hp1⟩ := clit_ok "TableGroup" c0 ['T', 'a', 'b', 'l', 'e', 'G', 'r', 'o', 'u', 'p'] _ hN (by decide)
    (by simp [startsWithCaseless] <;> decide) hp
  exact tableGroupRule_from c c0 c1 ('"' :: (g ++ ['"'])) g ns post Q hb hk (by rw [hr1]; simp) hp1 (spells_quoted g hg) hns hend

/-! ### the element form -/

/-- `CaselessKeyword('table')` does not match the first five letters of `TableGroup` -/
theorem ckw_table_fail_group (c0 : Cur) (r : Str) (hr : (skipWs c0).rest = 'T' :: 'a' :: 'b' :: 'l' :: 'e' :: 'G' :: r) :
    ckw "table" c0 = .fail := by
  unfold ckw
  simp only [hr]
  have hadv : (advance (skipWs c0) "table".length).rest = 'G' :: r := by
    rw [C13.advance_rest, hr]; rfl
  simp only [hadv]
  have : isKwIdent 'G' = true := by decide
  simp [this]

/-- a table group: a quoted name and its members, each given by the NAME it is written with -/
def groupE (ap : Bool) (g : Str) (ns : List Str) (hg : NameOK g) (hns : ∀ n ∈ ns, NameOK n) : EForm ap where
  pre := none
  head := 'T'
  body := (groupText g ns).tail
  elem := Bp.Elem.group (groupBpOf g ns)
  headOK := by decide
  headAscii := by decide
  preOK := trivial
  noTab := by
    intro c hc
    have e : 'T' :: (groupText g ns).tail = ['T', 'a', 'b', 'l', 'e', 'G', 'r', 'o', 'u', 'p', ' ', '"'] ++ g ++ ['"', ' ', '{', '\n']
        ++ memberLines ns ++ ['}'] := by simp [groupText]
    rw [e] at hc
    simp only [List.mem_append] at hc
    rcases hc with (((h | h) | h) | h) | h
    · exact (by decide : ∀ c ∈ ['T', 'a', 'b', 'l', 'e', 'G', 'r', 'o', 'u', 'p', ' ', '"'], c ≠ '\t') c h
    · exact (hg c h).2.2.2
    · exact (by decide : ∀ c ∈ ['"', ' ', '{', '\n'], c ≠ '\t') c h
    · have key : ∀ (l : List Str), (∀ n ∈ l, NameOK n) → ∀ c ∈ memberLines l, c ≠ '\t' := by
        intro l
        induction l with
        | nil => intro _ c hc; simp [memberLines] at hc
        | cons n r ih =>
          intro hl c hc
          have e2 : memberLines (n :: r) = [' ', ' ', ' ', ' ', '"'] ++ n ++ ['"', '\n'] ++ memberLines r := by simp [memberLines]
          rw [e2] at hc
          simp only [List.mem_append] at hc
          rcases hc with ((h | h) | h) | h
          · exact (by decide : ∀ c ∈ [' ', ' ', ' ', ' ', '"'], c ≠ '\t') c h
          · exact (hl n (by simp) c h).2.2.2
          · exact (by decide : ∀ c ∈ ['"', '\n'], c ≠ '\t') c h
          · exact ih (fun q hq => hl q (by simp [hq])) c h
      exact key ns hns c h
    · exact (by decide : ∀ c ∈ ['}'], c ≠ '\t') c h
  parse := by
    intro c c0 post hb hr0 hp0 _ hends
    have hr0' : c0.rest = groupText g ns ++ post := by rw [hr0]; simp [groupText]
    have hN0 : Next c0 'T' _ := skipWs_rest_head c0 'T' _ (by rw [hr0]) (by decide)
    have htab : tableRule ap c = .fail :=
      tableRule_fail' ap c c0 [] hb (ckw_table_fail_group c0
        ('r' :: 'o' :: 'u' :: 'p' :: ' ' :: '"' :: (g ++ '"' :: ' ' :: '{' :: '\n' :: (memberLines ns ++ '}' :: post))) (by
        rw [show (skipWs c0).rest = _ from hN0]; simp [groupText]))
    have href : refRule c = .fail :=
      refRule_fail' c c0 [] hb (clit_fail _ c0 _ _ hN0 (swc_ne 'T' _ "ref" 'r' _ rfl (by decide)))
    have henum : enumRule c = .fail :=
      enumRule_fail' c c0 [] hb (clit_fail _ c0 _ _ hN0 (swc_ne 'T' _ "enum" 'e' _ rfl (by decide)))
    obtain ⟨c9, hrule, hQ⟩ := tableGroupRule_okP c c0 g ns post (After post) hb hr0' hp0 hg hns
      (fun c7 hr7 hp7 => endRule_afterE c7 post hends hr7 hp7)
    refine ⟨c9, ?_, hQ⟩
    unfold element alt
    simp only [bind, pbind, htab, href, henum, hrule, pure, ppure]

theorem groupE_text (ap : Bool) (g : Str) (ns : List Str) (hg : NameOK g) (hns : ∀ n ∈ ns, NameOK n) :
    (groupE ap g ns hg hns).text = groupText g ns := by
  simp [EForm.text, groupE, commentText, groupText]

/-! ### rendering -/

theorem dropWhile_none {α} (p : α → Bool) (l : List α) (h : ∀ a ∈ l, p a = false) : l.dropWhile p = l := by
  cases l with
  | nil => rfl
  | cons a r => simp [List.dropWhile, h a (by simp)]

theorem doublequote_nameOK (n : Str) (hn : NameOK n) : doublequoteString n = .ok ('"' :: n ++ ['"']) := by
  have hq : ∀ c ∈ n, (decide (c = '"')) = false := by intro c hc; simpa using (hn c hc).1
  have hnl : containsChar '\n' n = false := by
    unfold containsChar
    rw [List.any_eq_false]
    intro c hc h
    simp at h
    subst h
    have := (hn _ hc).2.2.1
    simp [isLineBreak] at this
  have hstrip : stripSet (fun c => decide (c = '"')) n = n := by
    unfold stripSet rstripSet lstripSet
    rw [dropWhile_none _ n hq, dropWhile_none _ n.reverse (by intro c hc; exact hq c (by simpa using hc))]
    simp
  have hrep : replaceChar '"' ['\\', '"'] n = n := by
    unfold replaceChar
    induction n with
    | nil => rfl
    | cons c r ih =>
      have hc : c ≠ '"' := (hn c (by simp)).1
      simp only [List.flatMap_cons, hc, ↓reduceIte]
      rw [ih (fun x hx => hn x (by simp [hx])) (fun x hx => hq x (by simp [hx]))
        (by
          unfold containsChar at hnl ⊢
          rw [List.any_eq_false] at hnl ⊢
          intro x hx; exact hnl x (by simp [hx]))]
      · rfl
      · unfold stripSet rstripSet lstripSet
        rw [dropWhile_none _ r (fun x hx => hq x (by simp [hx])),
          dropWhile_none _ r.reverse (by intro x hx; exact hq x (by simp at hx; simp [hx]))]
        simp
  unfold doublequoteString
  simp only [hnl, Bool.false_eq_true, ↓reduceIte]
  rw [hstrip, hrep]

end C02
end PyDBML
