/-
C15 — "with the option off, the same syntax is a syntax error": for ANY input text parsed with
`allow_properties = False`, no table blueprint and no column blueprint carries a property
(`parseDoc_no_props_when_off`).  Together with `Build`, the database then holds no property.
-/
import PyDBMLProofs.Hoare
namespace PyDBML
namespace C15
open Lex Grammar Hoare Bp

/-- no `prop` setting among the parsed column settings -/
def NoPropSetting (s : ColSetting) : Prop := ∀ k v, s ≠ .prop k v

theorem np_simple {α : Type} (p : P α) (s : ColSetting) (h : NoPropSetting s) :
    Post (p >>= fun _ => pure s) NoPropSetting := post_bind' (fun _ => post_pure _ h)

theorem post_columnSetting : Post columnSetting NoPropSetting := by
  unfold columnSetting
  refine post_bind' (fun _ => post_bind (R := NoPropSetting) ?_ (fun r hr => post_bind' (fun _ => post_pure r hr)))
  refine post_alt (np_simple _ _ (by intro k v h; cases h)) ?_
  refine post_alt (np_simple _ _ (by intro k v h; cases h)) ?_
  refine post_alt (np_simple _ _ (by intro k v h; cases h)) ?_
  refine post_alt (np_simple _ _ (by intro k v h; cases h)) ?_
  refine post_alt (np_simple _ _ (by intro k v h; cases h)) ?_
  refine post_alt (np_simple _ _ (by intro k v h; cases h)) ?_
  refine post_alt (post_bind' (fun t => post_pure _ (by intro k v h; cases h))) ?_
  refine post_alt (post_bind' (fun t => post_pure _ (by intro k v h; cases h))) ?_
  exact post_bind' (fun t => post_pure _ (by intro k v h; cases h))

theorem foldColSettings_props (all : List ColSetting) (cm : Option Str) (h : ∀ s ∈ all, NoPropSetting s) :
    (foldColSettings all cm).props = none := by
  unfold foldColSettings
  simp only
  split
  · rfl
  · rename_i hne
    exfalso
    apply hne
    rw [List.isEmpty_iff, List.filterMap_eq_nil_iff]
    intro s hs
    have := h s hs
    cases s <;> first | rfl | exact absurd rfl (this _ _)

theorem post_columnSettings : Post columnSettings (fun s => s.props = none) := by
  unfold columnSettings
  refine post_bind' (fun _ => post_cut (post_bind post_columnSetting (fun s hs =>
    post_bind (post_manyF (post_bind' (fun _ => post_columnSetting))) (fun ss hss =>
      post_bind' (fun _ => post_bind' (fun cm => post_pure _ ?_))))))
  apply foldColSettings_props
  intro x hx
  rcases List.mem_cons.mp hx with rfl | hx
  · exact hs
  · exact hss x hx

theorem post_tableColumn_off : Post (tableColumn false) (fun c => c.props = none) := by
  unfold tableColumn
  refine post_bind' (fun before => post_bind' (fun nm => post_bind' (fun ty => post_bind' (fun cons =>
    post_bind' (fun cm => post_bind (post_opt post_columnSettings) (fun st hst => post_bind' (fun _ =>
      post_pure _ ?_)))))))
  simp only
  cases st with
  | none => rfl
  | some s => exact hst s rfl

def TblElemOff (e : TblElem) : Prop :=
  (∀ k v, e ≠ .prop k v) ∧ ∀ c, e = .column c → c.props = none

theorem post_tableElement_off : Post (tableElement false) TblElemOff := by
  unfold tableElement
  refine post_bind' (fun _ => post_bind (R := TblElemOff) ?_ (fun r hr => post_bind' (fun _ => post_pure r hr)))
  refine post_alt (post_bind post_tableColumn_off (fun c hc => post_pure _ ⟨(by intro k v h; cases h), (by intro c' h; cases h; exact hc)⟩)) ?_
  refine post_alt (post_bind' (fun t => post_pure _ ⟨(by intro k v h; cases h), (by intro c' h; cases h)⟩)) ?_
  refine post_alt (post_bind' (fun t => post_pure _ ⟨(by intro k v h; cases h), (by intro c' h; cases h)⟩)) ?_
  exact post_pfail

def TableOff (tb : TableBp) : Prop := tb.props = none ∧ ∀ c ∈ tb.columns, c.props = none

theorem post_tableRule_off : Post (tableRule false) TableOff := by
  unfold tableRule
  refine post_bind' (fun before => post_bind' (fun _ => post_bind' (fun sn => ?_)))
  obtain ⟨schema, nm⟩ := sn
  refine post_bind' (fun al => post_bind' (fun st => post_bind' (fun _ => post_bind' (fun _ => post_cut ?_))))
  refine post_bind (post_manyF post_tableElement_off) (fun els hels => post_bind' (fun _ =>
    post_bind' (fun _ => post_bind' (fun _ => ?_))))
  dsimp only
  split
  · exact post_pexn _
  · refine post_pure _ ⟨?_, ?_⟩
    · simp only
      split
      · rfl
      · rename_i hne
        exfalso
        apply hne
        rw [List.isEmpty_iff, List.filterMap_eq_nil_iff]
        intro e he
        have := (hels e he).1
        cases e <;> first | rfl | exact absurd rfl (this _ _)
    · intro c hc
      simp only at hc
      obtain ⟨e, he, hec⟩ := List.mem_filterMap.mp hc
      cases e <;> simp at hec
      subst hec
      exact (hels _ he).2 _ rfl

def ElemOff : Elem → Prop
  | .table tb => TableOff tb
  | _ => True

theorem post_document_off : Post (document false) (fun es => ∀ e ∈ es, ElemOff e) := by
  unfold document
  refine post_bind (post_manyF ?_) (fun es hes => post_bind' (fun _ => post_bind' (fun _ => post_pure _ hes)))
  unfold element
  refine post_alt (post_bind post_tableRule_off (fun t ht => post_pure _ ht)) ?_
  refine post_alt (post_bind' (fun r => post_pure _ trivial)) ?_
  refine post_alt (post_bind' (fun r => post_pure _ trivial)) ?_
  refine post_alt (post_bind' (fun r => post_pure _ trivial)) ?_
  exact post_alt (post_bind' (fun r => post_pure _ trivial)) (post_bind' (fun r => post_pure _ trivial))

/-- **C15, for any text**: parsed with the option off, no table and no column blueprint carries a
    property - `key: 'value'` is never read as a property there. -/
theorem parseDoc_no_props_when_off (text : Str) (es : List Elem) (c : Cur)
    (h : parseDoc false text = .ok es c) :
    ∀ tb, Elem.table tb ∈ es → tb.props = none ∧ ∀ col ∈ tb.columns, col.props = none := by
  intro tb htb
  exact post_document_off _ _ _ h (.table tb) htb

end C15
end PyDBML
