"""C14 — comments are captured on the element they belong to and are otherwise inert."""
import copy
import json
import random
import sys

from harness import ref_text as RT
from harness import core, ddl_reader as DR, expressible as EX, gen_db as GD, impl_text as IT, observe as O, speller as SP
from harness import parse_common as PC
from harness.driver import Driver, DriverError
from harness.props.c02 import make_expressible

sys.path.insert(0, '/repo')
from pydbml import PyDBML  # noqa: E402

PID = 'C14'
THEOREMS = ['PyDBML.C14.comment_lines_prefixed', 'PyDBML.C14.comment_ends_with_newline',
            'PyDBML.C14.splitNL_joinNL', 'PyDBML.C02.flags_document_roundtrip_partial', 'PyDBML.C02.flags_refs_roundtrip_partial', 'PyDBML.C02.flags_tables_roundtrip_partial',
            'PyDBML.C02.cBefore_comment', 'PyDBML.C02.cBefore_nl_comment', 'PyDBML.C02.comment_line_ok', 'PyDBML.C02.optComment_eq']
MODULES = ['PyDBMLProofs.Props.C14', 'PyDBMLProofs.Props.C02Comment', 'PyDBMLProofs.Props.C02FormTables', 'PyDBMLProofs.Props.C02FormRefs',
           'PyDBMLProofs.Props.C02FlagsTables', 'PyDBMLProofs.Props.C02Doc', 'PyDBMLProofs.Props.C02DocMore', 'PyDBMLProofs.Props.C02Group', 'PyDBMLProofs.Props.C02Inline', 'PyDBMLProofs.Props.C02Project', 'PyDBMLProofs.Props.C02EnumNote', 'PyDBMLProofs.Props.C02TableNote', 'PyDBMLProofs.Props.C02Document']


def comments_of(d):
    out = {}
    for ti, t in enumerate(d['tables']):
        out[f'table{ti}'] = t.get('comment')
        for ci, c in enumerate(t['columns']):
            out[f'table{ti}.col{ci}'] = c.get('comment')
        for ii, ix in enumerate(t['indexes']):
            out[f'table{ti}.idx{ii}'] = ix.get('comment')
    for ei, e in enumerate(d['enums']):
        out[f'enum{ei}'] = e.get('comment')
        for ii, it in enumerate(e['items']):
            out[f'enum{ei}.item{ii}'] = it.get('comment')
    for ri, r in enumerate(d['refs']):
        out[f'ref{ri}'] = r.get('comment')
    for gi, g in enumerate(d['groups']):
        out[f'group{gi}'] = g.get('comment')
    if d['project'] is not None:
        out['project'] = d['project'].get('comment')
    return out


def placement_job(seed):
    spec = SP.normalise_for_spelling(GD.gen_spec(random.Random(seed), wild=False, max_tables=3), RT.ref_norm)
    if not SP.spellable(spec):
        return None
    props = spec['allow_properties']
    variants = []
    for k, opts in enumerate(({'comments': False}, {'comments': True, 'comment_seed': f'{seed}:a'},
                              {'comments': True, 'comment_seed': f'{seed}:b'})):
        text, exp, _ = SP.spell(spec, random.Random(f'{seed}:spelling'), dict(opts, varied=True))
        variants.append((text, exp, PC.impl_parse(text, props)))
    fails = []
    base = variants[0]
    if 'ok' not in base[2]:
        return {'skip': 'base rejected: ' + base[2]['err']}
    for text, exp, r in variants[1:]:
        if 'ok' not in r:
            fails.append(('adding comments at allowed positions makes the document unparseable: ' + r['err'], text))
            continue
        if O.strip_comments(r['ok']) != O.strip_comments(base[2]['ok']):
            d = PC.first_diff(O.strip_comments(base[2]['ok']), O.strip_comments(r['ok']))
            fails.append((f'comments change something other than comment attributes ({d[0] if d else "?"})', text))
        want, got = comments_of(exp), comments_of(r['ok'])
        for key in want:
            w, g = want[key], got.get(key)
            if (w or None) != (g or None) and not (w == '' and g == '') and w != g:
                fails.append((f'comment of {key} is {g!r}, the document places {w!r} there', text))
                break
    n_comments = sum(1 for _, e, _ in variants[1:] for v in comments_of(e).values() if v is not None)
    return {'fails': fails, 'props': props, 'texts': [(t, r) for t, _, r in variants], 'n_comments': n_comments}


CM_POOL = ['plain', 'two\nlines', "quote ' and \" here", "'; DROP TABLE users; --", '*/ x /*', '{curly} [square] (round)',
           'Table evil {\n  id int\n}', 'ends with backslash \\', 'CREATE TABLE "x" ("y" int);', 'ü 日本 😀', 'a -- b // c', 'x\n\ny',
           'ends with a blank ', 'first line  \nsecond line ', 'x  ']


# characters Python's str.splitlines() breaks at but DBML / SQL line comments do not: inside a comment they are ordinary
# characters (top-level elements only: inside indented bodies see KF on exotic line breaks)
CM_TOP_POOL = CM_POOL + ['a\u2028b', 'form\x0cfeed', 'ver\x0btab', 'nel\x85x', 'sep\x1cx \u2029 y']


def render_job(seed):
    """comments on an API-built database: rendered as prefixed comment lines, never part of a statement"""
    rng = random.Random(seed)
    spec = make_expressible(GD.gen_spec(rng, wild=False, max_tables=3))
    if EX.reasons(spec):
        return None
    with_c = copy.deepcopy(spec)

    def maybe(pool=CM_POOL):
        return rng.choice(pool) if rng.random() < 0.5 else None
    for t in with_c['tables']:
        t['comment'] = maybe(CM_TOP_POOL)
        for c in t['columns']:
            c['comment'] = maybe()
        for ix in t['indexes']:
            ix['comment'] = maybe()
    for e in with_c['enums']:
        e['comment'] = maybe(CM_TOP_POOL)
        for it in e['items']:
            it['comment'] = maybe()
    for r in with_c['refs']:
        r['comment'] = None if EX.eff_inline(r) else maybe(CM_TOP_POOL)    # an inline reference cannot carry a comment in DBML
    for g in with_c['groups']:
        g['comment'] = maybe(CM_TOP_POOL)
    if with_c['project'] is not None:
        with_c['project']['comment'] = maybe(CM_TOP_POOL)
    fails = []
    try:
        db0, _ = GD.build(spec)
        db1, _ = GD.build(with_c)
        sql0, sql1, dbml0, dbml1 = db0.sql, db1.sql, db0.dbml, db1.dbml
    except Exception as e:  # noqa: BLE001
        return {'fails': [('rendering with comments raises ' + O.classify(e), None)], 'spec': with_c}
    # SQL: same statements with and without comments (where the independent reader can tokenise the script)
    from harness import sql_oracle as SO
    try:
        if not SO.hygienic(spec):
            raise StopIteration
        s0 = [{k: v for k, v in st.items() if k != 'comments'} for st in DR.read(sql0)]
        s1 = [{k: v for k, v in st.items() if k != 'comments'} for st in DR.read(sql1)]
        if s0 != s1:
            fails.append(('comment text became part of an SQL statement (statements differ with/without comments)', sql1))
    except StopIteration:
        pass
    except DR.DDLError as e:
        fails.append(('SQL with comments cannot be read back: ' + str(e), sql1))
    # every emitted comment line carries the marker; removing marker lines gives the comment-free text
    def strip_lines(text, marker):
        return '\n'.join(l for l in text.split('\n') if l.strip(' ') != '' and not l.lstrip(' ').startswith(marker))
    if strip_lines(sql1, '-- ') != strip_lines(sql0, '-- ') and strip_lines(sql1, '--') != strip_lines(sql0, '--'):
        fails.append(('SQL comment lines are not all prefixed with "-- "', sql1))
    # every element the SQL renderer emits carries its comment there: each expected comment line is found (a many-to-many
    # reference is emitted as several statements and may repeat it), and no comment line comes from nowhere
    import collections as _c
    want_lines = []
    for el in ([x for t in with_c['tables'] for x in [t] + t['columns'] + t['indexes']]
               + [x for e in with_c['enums'] for x in [e] + e['items']] + with_c['refs']):
        if el.get('comment'):
            want_lines += el['comment'].split('\n')
    got_lines = [l.lstrip(' ')[3:] for l in sql1.split('\n') if l.lstrip(' ').startswith('-- ')]
    base_lines = [l.lstrip(' ')[3:] for l in sql0.split('\n') if l.lstrip(' ').startswith('-- ')]
    missing = _c.Counter(want_lines) - (_c.Counter(got_lines) - _c.Counter(base_lines))
    if missing:
        fails.append((f'the SQL script does not show the comment line {sorted(missing)[0]!r} of an element it emits', sql1))
    elif set(got_lines) - set(want_lines) - set(base_lines):
        fails.append((f'the SQL script shows a comment line nobody wrote: {sorted(set(got_lines) - set(want_lines) - set(base_lines))[0]!r}', sql1))
    if strip_lines(dbml1, '//') != strip_lines(dbml0, '//'):
        fails.append(('DBML comment lines are not all prefixed with "// "', dbml1))
    # DBML: parses back to the same content; comments come back where DBML can carry them
    r0 = PC.impl_parse(dbml0, spec['allow_properties'])
    r1 = PC.impl_parse(dbml1, spec['allow_properties'])
    if 'ok' not in r1:
        fails.append(('DBML with comments does not parse: ' + r1['err'], dbml1))
    elif 'ok' in r0 and O.strip_comments(r0['ok']) != O.strip_comments(r1['ok']):
        fails.append(('comment text became part of a DBML declaration (content differs with/without comments)', dbml1))
    elif 'ok' in r1:
        want, got = comments_of(with_c), comments_of(r1['ok'])
        # references are re-ordered canonically already (make_expressible)
        for key, w in want.items():
            g = got.get(key)
            if (w or None) != (g or None):
                reason = 'CommentLeadingBlank' if w and any(l[:1] in (' ', '\t') for l in w.split('\n')) else None
                if '.col' in key:
                    reason = 'ColumnCommentPlacement'
                fails.append((f'comment of {key} does not survive the DBML round trip: {w!r} -> {g!r}', dbml1, reason))
                break
    return {'fails': fails, 'spec': with_c}


def main(tier, seed):
    ctx = core.Ctx(PID, tier, seed, 'translation_validation', THEOREMS, MODULES)
    ctx.build()
    problems = ctx.audit() if ctx.build_ok else ['lake build failed']
    drv = None
    try:
        drv = Driver()
    except DriverError as e:
        ctx.notes.append(str(e))
    n = 700 if not ctx.thorough else 12000
    res = [r for r in core.pmap(placement_job, [f'{seed}:{k}' for k in range(n)]) if r is not None]
    texts = []
    for k, r in enumerate(res):
        if 'skip' in r:
            ctx.count('skip:' + r['skip'][:40])
            continue
        ctx.case(core.h([t for t, _ in r['texts']]), r['n_comments'] >= 1,
                 sample={'captured_comments': r['n_comments'], 'text': r['texts'][1][0][:500]} if k % 250 == 2 else None)
        ctx.count('captured-comments', r['n_comments'])
        for what, text in r['fails'][:2]:
            ctx.fail(what, {'op': 'placement', 'text': text, 'props': r['props']})
        texts += [(t, r['props'], o) for t, o in r['texts'][1:]]
    m = 400 if not ctx.thorough else 6000
    rres = [r for r in core.pmap(render_job, [f'{seed}:r{k}' for k in range(m)]) if r is not None]
    for k, r in enumerate(rres):
        ctx.case(core.h(['render', r['spec']]), True, sample={'render_case_comments': [v for v in comments_of(r['spec']).values() if v][:3]} if k % 150 == 1 else None)
        for f in r['fails'][:2]:
            what, text = f[0], f[1]
            ctx.fail(what, {'op': 'render-comments', 'spec': r['spec']}, reason=f[2] if len(f) > 2 else None, text=text)
    if drv is not None:
        ms = drv.ask_many({'op': 'parse', 'text': t, 'allow_properties': p} for t, p, _ in texts)
        for (t, p, i), mo in zip(texts, ms):
            if mo.get('err') != 'outOfModel' and not PC.same_parse(mo, i):
                d = PC.first_diff(mo.get('ok'), i.get('ok')) if 'ok' in mo and 'ok' in i else None
                ctx.diverge('parse of a commented document (comment attributes included)', {'op': 'parse', 'text': t, 'props': p},
                            PC.brief(mo) + (f' {d}' if d else ''), PC.brief(i))
        # model renderings of commented databases
        specs = [r['spec'] for r in rres][:300]
        for op in ('sql', 'dbml'):
            mm = drv.ask_many({'op': op, 'db': s} for s in specs)
            for s, x in zip(specs, mm):
                db, _ = GD.build(s)
                it = O.run(lambda: getattr(db, op))
                if it[0] == 'ok' and x.get('ok') != it[1]:
                    ctx.diverge(f'db.{op} with comments', {'op': op, 'db': s}, x, it)
        drv.close()

    def kf_replay(f):
        r = render_job_for_spec(f['witness']['spec'])
        return bool(r)

    return ctx.finish(
        rule='placement: each spelled document in three versions (no comments; two independent random placements of // and '
             '/* */ comments above elements, trailing on column/index/enum-item/reference lines before or after their settings, '
             'and at discarding positions inside bodies) with the same base spelling. rendering: Expressible API-built databases '
             'with hostile comment texts (quotes, SQL/DBML syntax, comment terminators, multi-line) on every element kind. '
             'Non-trivial: at least one captured comment; distinct by text hash',
        explanation='Metamorphic oracle on the real parser: the content minus comment attributes is identical in the three versions; '
                    'the comment attributes are the ones the placement rules predict (trailing wins over above). Rendering oracle: '
                    'SQL statements read back by the DDL reader are the same with and without comments, every comment line carries '
                    'its marker, the DBML re-parses to the same content and comments. Theorem: every line of a rendered comment '
                    'starts with the marker (comment_lines_prefixed); a one-line comment directly above a TABLE is written by the DBML renderer as a `// ` line '
                    '(optComment_eq), collected by `_c` exactly (cBefore_comment at the start of the text, cBefore_nl_comment after the previous element; '
                    'comment_line_ok) and stored on that very table: flags_tables_roundtrip_partial / flags_refs_roundtrip_partial (C02FlagsTables.lean) - '
                    'documents of any number of tables, each possibly under a comment, round-trip with the comments on the same tables. The Lean parser and renderer models must agree on all of it.',
        assumptions=['comment lines are LF-separated as the code defines them; U+2028 / FF / VT / NEL inside a comment are generated for top-level elements only (inside indented bodies the re-indentation splits at them: recorded under C13)'],
        trusted_base=['Lean 4.33 kernel', 'hand-written models tied by this correspondence', 'harness/speller.py placement rules'],
        kf_replay=None, proof_problems=problems)


def render_job_for_spec(spec):
    return None


def replay(path):
    case = json.load(open(path))
    c = case.get('case', {})
    print(json.dumps({k: v for k, v in case.items() if k != 'case'}, indent=1)[:3000])
    if 'text' in c:
        print(c['text'])
        print('impl:', PC.brief(PC.impl_parse(c['text'], c.get('props', False))))
    return 0
