"""C04 — every relationship becomes exactly one correctly directed FOREIGN KEY in SQL."""
from harness import core
from harness.props import sqlcommon as SC

PID = 'C04'
THEOREMS = ['PyDBML.C04.inline_site', 'PyDBML.C04.inline_count', 'PyDBML.C04.never_both', 'PyDBML.C04.direction_left', 'PyDBML.C04.direction_right', 'PyDBML.C04.source_is_keyHolder', 'PyDBML.C04.constraint_iff_name', 'PyDBML.C04.actions_iff_set', 'PyDBML.C04.m2m_never_inline',
            'PyDBML.C04.read_render_fk', 'PyDBML.C04.read_render_inline_fk']
MODULES = ['PyDBMLProofs.Props.C04', 'PyDBMLProofs.Props.C04Read', 'PyDBMLProofs.Props.C04Inline']


# ---- the proved reader of FOREIGN KEY statements (PyDBMLModel/SqlRead.lean, C04Read.lean) run on reference.sql of the real code ----

ACTIONS = [None, None, 'cascade', 'set null', 'no action', 'restrict', 'set default', 'CASCADE']
REF_NAMES = [None, None, '', 'fk', 'fk 1', 'orders->users', "it's", 'ünï']


def gen_fk_spec(rng):
    from harness.props import c03
    tables = c03.gen_reader_spec(rng)
    refs = []
    for _ in range(rng.choice([1, 1, 2, 3])):
        t1, t2 = rng.randrange(len(tables)), rng.randrange(len(tables))
        n = min(len(tables[t1]['columns']), len(tables[t2]['columns']), rng.choice([1, 1, 2, 3]))
        c1 = rng.sample(range(len(tables[t1]['columns'])), n)
        c2 = rng.sample(range(len(tables[t2]['columns'])), n)
        refs.append({'type': rng.choice(['>', '<', '-']), 't1': t1, 'col1': c1, 't2': t2, 'col2': c2, 'name': rng.choice(REF_NAMES),
                     'on_update': rng.choice(ACTIONS), 'on_delete': rng.choice(ACTIONS)})
    return {'tables': tables, 'refs': refs}


def fk_expect(spec):
    """what the statement promises of each standalone reference, from the generated content alone"""
    def q(t):
        return '"%s"' % t['name'] if t['schema'] == 'public' else '"%s"."%s"' % (t['schema'], t['name'])
    out = []
    for r in spec['refs']:
        a, b = (spec['tables'][r['t1']], r['col1']), (spec['tables'][r['t2']], r['col2'])
        src, dst = (b, a) if r['type'] == '<' else (a, b)          # the key holder gets the FOREIGN KEY
        out.append({'src': q(src[0]), 'constraint': r['name'] or None, 'src_cols': [src[0]['columns'][i]['name'] for i in src[1]],
                    'dst': q(dst[0]), 'dst_cols': [dst[0]['columns'][i]['name'] for i in dst[1]],
                    'actions': (' ON UPDATE ' + r['on_update'].upper() if r['on_update'] else '')
                               + (' ON DELETE ' + r['on_delete'].upper() if r['on_delete'] else '')})
    return out


def fk_job(spec):
    from pydbml import Database
    from pydbml.classes import Table, Column, Reference
    db = Database()
    tabs = []
    for t in spec['tables']:
        tb = Table(t['name'], schema=t['schema'])
        for c in t['columns']:
            tb.add_column(Column(c['name'], c['type'], pk=c['pk']))
        db.add(tb)
        tabs.append(tb)
    out = []
    for r in spec['refs']:
        ref = Reference(r['type'], [tabs[r['t1']].columns[i] for i in r['col1']], [tabs[r['t2']].columns[i] for i in r['col2']],
                        name=r['name'], on_update=r['on_update'], on_delete=r['on_delete'])
        try:
            db.add(ref)
        except Exception as e:      # noqa: an equal reference is there already
            out.append(['dup', type(e).__name__])
            continue
        try:
            out.append(['ok', ref.sql])
        except Exception as e:      # noqa
            out.append(['exc', type(e).__name__])
    try:
        whole = ['ok', db.sql]
    except Exception as e:          # noqa
        whole = ['exc', type(e).__name__]
    return {'refs': out, 'db': whole}


def part_fk_reader(ctx, drv):
    if drv is None:
        ctx.notes.append('FOREIGN KEY reader part skipped: no driver')
        return
    n = 300 if ctx.tier == 'quick' else 3000
    specs = [gen_fk_spec(ctx.rng) for _ in range(n)]
    res = core.pmap(fk_job, specs)
    flat = [(si, ri) for si, r in enumerate(res) for ri, x in enumerate(r['refs']) if x[0] == 'ok']
    read = drv.ask_many({'op': 'readfk', 'text': res[si]['refs'][ri][1]} for si, ri in flat)
    got = {k: m.get('ok') for k, m in zip(flat, read)}
    for si, (spec, r) in enumerate(zip(specs, res)):
        ctx.case(core.h(spec), True)
        exp = fk_expect(spec)
        case = {'op': 'readfk', 'spec': spec}
        stmts = []
        for ri, x in enumerate(r['refs']):
            ctx.count('fk-reader:' + x[0])
            if x[0] == 'exc':
                ctx.fail('reference.sql of a standalone reference raises', case, detail=x[1])
            elif x[0] == 'ok':
                ctx.count('fk-reader:kind ' + spec['refs'][ri]['type'] + (' composite' if len(spec['refs'][ri]['col1']) > 1 else ''))
                stmts.append(x[1])
                if got[(si, ri)] != exp[ri]:
                    ctx.fail('the proved FOREIGN KEY reader does not read from reference.sql what the reference says '
                             '(C04Read.read_render_fk)', case, detail={'expected': exp[ri], 'read': got[(si, ri)], 'ref': ri}, sql=x[1])
        # exactly one statement per reference in db.sql
        if r['db'][0] == 'ok':
            alters = [l for l in r['db'][1].split('\n') if l.startswith('ALTER TABLE ')]
            if sorted(alters) != sorted(stmts):
                ctx.fail('db.sql does not hold exactly one ALTER TABLE statement per standalone reference', case,
                         detail={'in db.sql': alters, 'reference.sql': stmts})
        else:
            ctx.fail('db.sql raises', case, detail=r['db'][1])


def inline_job(spec):
    """the same references written inline: reference.sql is the FOREIGN KEY clause, and the CREATE TABLE of the key holder holds it"""
    from pydbml import Database
    from pydbml.classes import Table, Column, Reference
    db = Database()
    tabs = []
    for t in spec['tables']:
        tb = Table(t['name'], schema=t['schema'])
        for c in t['columns']:
            tb.add_column(Column(c['name'], c['type'], pk=c['pk']))
        db.add(tb)
        tabs.append(tb)
    out = []
    for r in spec['refs']:
        ref = Reference(r['type'], [tabs[r['t1']].columns[i] for i in r['col1']], [tabs[r['t2']].columns[i] for i in r['col2']],
                        name=r['name'], on_update=r['on_update'], on_delete=r['on_delete'], inline=True)
        try:
            db.add(ref)
        except Exception as e:      # noqa
            out.append(['dup', type(e).__name__])
            continue
        try:
            out.append(['ok', ref.sql])
        except Exception as e:      # noqa
            out.append(['exc', type(e).__name__])
    try:
        whole = ['ok', db.sql]
    except Exception as e:          # noqa
        whole = ['exc', type(e).__name__]
    return {'refs': out, 'db': whole}


def part_inline_reader(ctx, drv):
    n = 200 if ctx.tier == 'quick' else 2000
    specs = [gen_fk_spec(ctx.rng) for _ in range(n)]
    res = core.pmap(inline_job, specs)
    flat = [(si, ri) for si, r in enumerate(res) for ri, x in enumerate(r['refs']) if x[0] == 'ok']
    read = drv.ask_many({'op': 'readfkclause', 'text': res[si]['refs'][ri][1]} for si, ri in flat)
    got = {k: m.get('ok') for k, m in zip(flat, read)}
    for si, (spec, r) in enumerate(zip(specs, res)):
        ctx.case(core.h(['inline', spec]), True)
        exp = fk_expect(spec)
        case = {'op': 'readfkclause', 'spec': spec}
        for ri, x in enumerate(r['refs']):
            ctx.count('inline-reader:' + x[0])
            if x[0] == 'exc':
                ctx.fail('reference.sql of an inline reference raises', case, detail=x[1])
            elif x[0] == 'ok':
                e = {k: v for k, v in exp[ri].items() if k != 'src'}
                if got[(si, ri)] != e:
                    ctx.fail('the proved FOREIGN KEY clause reader does not read from reference.sql of an inline reference what the '
                             'reference says (C04Inline.read_render_inline_fk)', case,
                             detail={'expected': e, 'read': got[(si, ri)], 'ref': ri}, sql=x[1])
                    continue
                # the clause stands in the CREATE TABLE of the key holder, once, and in no other statement
                if r['db'][0] == 'ok':
                    blocks = r['db'][1].split('\n\n')
                    holder = [b for b in blocks if b.startswith('CREATE TABLE ' + exp[ri]['src'] + ' (')]
                    lines = lambda b: [l.strip().rstrip(',') for l in b.split('\n')]      # noqa: E731
                    n_in = sum(lines(b).count(x[1]) for b in holder)
                    n_all = sum(lines(b).count(x[1]) for b in blocks)
                    same = sum(1 for rj, y in enumerate(r['refs']) if y[0] == 'ok' and y[1] == x[1] and exp[rj]['src'] == exp[ri]['src'])
                    if len(holder) != 1 or n_in != same or n_all != sum(1 for y in r['refs'] if y[0] == 'ok' and y[1] == x[1]):
                        ctx.fail('the FOREIGN KEY clause of an inline reference does not stand exactly once in the CREATE TABLE of its key '
                                 'holder', case, detail={'clause': x[1], 'holder': exp[ri]['src'], 'in holder': n_in, 'anywhere': n_all},
                                 sql=r['db'][1])
        if r['db'][0] != 'ok':
            ctx.fail('db.sql raises', case, detail=r['db'][1])


def main(tier, seed):
    ctx = core.Ctx(PID, tier, seed, 'translation_validation', THEOREMS, MODULES)
    problems = SC.run_sql_check(ctx, PID, extra_parts=lambda c, d: (part_fk_reader(c, d), part_inline_reader(c, d) if d is not None else None))
    return ctx.finish(
        rule='random databases with 0-5 references: 4 kinds x inline/standalone x single/composite x self/cross-table/'
             'cross-schema x named/unnamed x 7x7 action pairs; every third spec wild. Non-trivial: >=1 reference; '
             'distinct by dump hash',
        explanation='Correspondence of the FOREIGN KEY lines of db.sql (with their enclosing CREATE TABLE) and of every '
                    'reference.sql with the Lean model; oracle: every FK (clause or ALTER) read back by the independent DDL '
                    'reader with its host, compared as a multiset with the expectation computed from the references; '
                    'join tables of many-to-many references checked column by column. Theorem read_render_fk (C04Read.lean): a reader '
                    'of ALTER TABLE ... FOREIGN KEY statements written in Lean (PyDBMLModel/SqlRead.lean, text only) reads from the '
                    'statement the model writes for a standalone reference the key holder (left table for > and -, right table for <) '
                    'as the altered table, its columns in order, the referenced table and columns, CONSTRAINT exactly when named, the '
                    'action clauses; the same reader (driver op readfk) is run on reference.sql of the real code for API-built '
                    'references (3 kinds x single/composite x named/unnamed/empty name x 8x8 actions x schemas x odd names) and must '
                    'read exactly the generated content; db.sql must hold exactly these statements, one per reference.',
        assumptions=['oracle runs on reader-hygienic specs'],
        trusted_base=['Lean 4.33 kernel', 'hand-written model PyDBMLModel/RenderSql.lean tied by this correspondence',
                      'harness/ddl_reader.py', 'harness/sql_oracle.py'],
        proof_problems=problems)


def replay(path):
    import json
    c = json.load(open(path)).get('case', {})
    if c.get('op') == 'readfk':
        from harness.driver import Driver
        r = fk_job(c['spec'])
        exp = fk_expect(c['spec'])
        bad = 0
        with Driver() as d:
            for ri, x in enumerate(r['refs']):
                got = d.ask({'op': 'readfk', 'text': x[1]}).get('ok') if x[0] == 'ok' else None
                print(ri, x, '\n   read    :', got, '\n   expected:', exp[ri])
                bad += x[0] == 'exc' or (x[0] == 'ok' and got != exp[ri])
        print('db.sql:', r['db'])
        return 1 if bad else 0
    return SC.replay_sql(path, PID)
