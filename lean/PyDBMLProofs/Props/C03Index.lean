/-
C03 — the reader of the DDL, continued: `CREATE INDEX` statements over column subjects (`read_render_index`).
-/
import PyDBMLModel
import PyDBMLProofs.Props.C04Read
namespace PyDBML
namespace C04
open Sql C03

/-- the statement the model writes for an index that is not a pk index, over the columns at positions `cs` -/
def indexLine (t : Table) (ix : Index) (cs : List Nat) : Str :=
  lit "CREATE " ++ (if ix.unique then lit "UNIQUE " else []) ++ lit "INDEX "
    ++ (if truthy ix.name then '"' :: ix.name.getD [] ++ lit "\" " else [])
    ++ lit "ON " ++ qualName t.schema t.name ++ [' ']
    ++ (if truthy ix.type then lit "USING " ++ upperAscii (ix.type.getD []) ++ [' '] else [])
    ++ '(' :: joinWith (lit ", ") ((namesAt t cs).map quoteN) ++ lit ");"

theorem renderIndex_line (t : Table) (ix : Index) (cs : List Nat) (hpk : ix.pk = false) (hcm : ix.comment = none)
    (hsub : ix.subjects = cs.map Subject.col) (hin : ∀ i ∈ cs, i < t.columns.length) :
    renderIndex t ix = .ok (indexLine t ix cs) := by
  have hm : ix.subjects.mapM (renderSubject t) = .ok ((namesAt t cs).map quoteN) := by
    rw [hsub, List.mapM_map]
    unfold namesAt
    rw [List.map_map]
    apply mapM_ok_map_mem'
    intro i hi
    have hl := hin i hi
    simp [renderSubject, getD?, List.getElem?_eq_getElem hl, bind, Except.bind, pure, Except.pure, quoteN]
  unfold renderIndex
  simp only [hm, bind, Except.bind, pure, Except.pure, hpk, Bool.false_eq_true, ↓reduceIte, Sql.optComment, hcm, List.nil_append]
  rfl

/-- what the model says of such an index -/
def indexDescOf (t : Table) (ix : Index) (cs : List Nat) : IndexDesc :=
  { unique := ix.unique, name := if truthy ix.name then ix.name else none, table := qualName t.schema t.name,
    method := if truthy ix.type then some (upperAscii (ix.type.getD [])) else none, cols := namesAt t cs }

theorem readIndex_indexLine (t : Table) (ix : Index) (cs : List Nat) (hne : cs ≠ [])
    (hqt : '"' ∉ t.schema ∧ '"' ∉ t.name) (hqc : ∀ n ∈ namesAt t cs, '"' ∉ n)
    (hqn : ∀ n, ix.name = some n → '"' ∉ n) (hty : ' ' ∉ upperAscii (ix.type.getD [])) :
    readIndex (indexLine t ix cs) = some (indexDescOf t ix cs) := by
  have hnames := readNamesR_ok [';'] (namesAt t cs) ((joinWith (lit ", ") ((namesAt t cs).map quoteN) ++ ')' :: [';']).length)
    (by simpa [namesAt] using hne) (by
      have := joinNames_length (namesAt t cs)
      simp only [List.length_append]
      omega) hqc
  have hkeys : ∀ (pre : Str), pre ++ ('(' :: joinWith (lit ", ") ((namesAt t cs).map quoteN) ++ lit ");")
      = pre ++ '(' :: (joinWith (lit ", ") ((namesAt t cs).map quoteN) ++ ')' :: [';']) := by
    intro pre; simp [lit]
  -- the part from `ON` on
  have hon : ∀ (u : Bool) (nm : Option Str),
      (match readQual (qualName t.schema t.name ++ ' ' :: ((if truthy ix.type then lit "USING " ++ upperAscii (ix.type.getD []) ++ [' '] else [])
          ++ '(' :: (joinWith (lit ", ") ((namesAt t cs).map quoteN) ++ ')' :: [';']))) with
        | some (tq, ' ' :: s4) =>
          let us := readUsing s4
          match us.2 with
          | '(' :: s5 =>
            match readNamesR s5.length s5 with
            | some (cs', [';']) => some (⟨u, nm, tq, us.1, cs'⟩ : IndexDesc)
            | _ => none
          | _ => none
        | _ => none)
      = some ⟨u, nm, qualName t.schema t.name, if truthy ix.type then some (upperAscii (ix.type.getD [])) else none, namesAt t cs⟩ := by
    intro u nm
    rw [readQual_ok _ _ _ hqt.1 hqt.2]
    simp only []
    by_cases htt : truthy ix.type = true
    · simp only [htt, ↓reduceIte, List.append_assoc, List.cons_append, List.nil_append]
      have hs : ∀ ch ∈ upperAscii (ix.type.getD []), (ch != ' ') = true := by
        intro ch hch
        simp only [bne_iff_ne, ne_eq]
        intro e; subst e; exact hty hch
      obtain ⟨hd, ht⟩ := dropWhile_until (· != ' ') (upperAscii (ix.type.getD [])) ' '
        ('(' :: (joinWith (lit ", ") ((namesAt t cs).map quoteN) ++ ')' :: [';'])) hs (by decide)
      unfold readUsing
      rw [stripKw_append]
      simp only [hd, ht, hnames]
    · have hf : truthy ix.type = false := by simpa using htt
      simp only [hf, Bool.false_eq_true, ↓reduceIte, List.nil_append]
      have hu : readUsing ('(' :: (joinWith (lit ", ") ((namesAt t cs).map quoteN) ++ ')' :: [';']))
          = (none, '(' :: (joinWith (lit ", ") ((namesAt t cs).map quoteN) ++ ')' :: [';'])) := by
        simp [readUsing, stripKw, lit, List.isPrefixOf]
      rw [hu]
      simp only [hnames]
  unfold readIndex indexLine indexDescOf
  simp only [List.append_assoc]
  rw [stripKw_append]
  simp only []
  -- unique
  have hu : ∀ X : Str, stripKw (lit "UNIQUE ") ((if ix.unique then lit "UNIQUE " else []) ++ (lit "INDEX " ++ X)) = (ix.unique, lit "INDEX " ++ X) := by
    intro X
    cases ix.unique
    · simp [stripKw, lit, List.isPrefixOf]
    · simp only [↓reduceIte]; exact stripKw_append _ _
  have hnoname : ∀ X : Str, readIndexName (lit "ON " ++ X) = (none, lit "ON " ++ X) := by
    intro X; simp [readIndexName, readQuoted, lit]
  rw [hu]
  simp only []
  rw [stripKw_append]
  simp only []
  -- name
  cases hn : ix.name with
  | none =>
    simp only [truthy, Bool.false_eq_true, ↓reduceIte, List.nil_append, hnoname]
    rw [stripKw_append]
    simp only [List.singleton_append, hkeys]
    exact hon ix.unique none
  | some n =>
    cases n with
    | nil =>
      simp only [truthy, Bool.false_eq_true, ↓reduceIte, List.nil_append, hnoname]
      rw [stripKw_append]
      simp only [List.singleton_append, hkeys]
      exact hon ix.unique none
    | cons a b =>
      have hq := hqn (a :: b) hn
      have e : ∀ X : Str, ('"' :: (some (a :: b)).getD [] ++ lit "\" ") ++ X = '"' :: ((a :: b) ++ '"' :: (' ' :: X)) := by
        intro X; simp [lit]
      simp only [truthy, ↓reduceIte]
      rw [e]
      unfold readIndexName
      rw [readQuoted_ok (a :: b) _ hq]
      simp only []
      rw [stripKw_append]
      simp only [List.singleton_append, hkeys]
      exact hon ix.unique (some (a :: b))

/-- **the reader inverts the index renderer**: one `CREATE INDEX` statement per index that is not a pk index, `UNIQUE`
    exactly when set, the name exactly when there is a non-empty one, `ON` the table as qualified in its CREATE TABLE,
    `USING` the upper-cased type exactly when one is set, and the subject columns by name in order. -/
theorem read_render_index (t : Table) (ix : Index) (cs : List Nat) (hpk : ix.pk = false) (hcm : ix.comment = none)
    (hsub : ix.subjects = cs.map Subject.col) (hin : ∀ i ∈ cs, i < t.columns.length) (hne : cs ≠ [])
    (hqt : '"' ∉ t.schema ∧ '"' ∉ t.name) (hqc : ∀ n ∈ namesAt t cs, '"' ∉ n)
    (hqn : ∀ n, ix.name = some n → '"' ∉ n) (hty : ' ' ∉ upperAscii (ix.type.getD [])) :
    ∃ line, renderIndex t ix = .ok line ∧ readIndex line = some (indexDescOf t ix cs) :=
  ⟨_, renderIndex_line t ix cs hpk hcm hsub hin, readIndex_indexLine t ix cs hne hqt hqc hqn hty⟩

example : readIndex (lit "CREATE UNIQUE INDEX \"by name\" ON \"s\".\"t\" USING HASH (\"a\", \"b c\");")
      = some ⟨true, some (lit "by name"), lit "\"s\".\"t\"", some (lit "HASH"), [lit "a", lit "b c"]⟩
    ∧ readIndex (lit "CREATE INDEX ON \"t\" (\"a\");") = some ⟨false, none, lit "\"t\"", none, [lit "a"]⟩ := by decide +kernel

end C04
end PyDBML
