#!/usr/bin/env python3
"""Regenerate /verif/MANIFEST.json from the table below (kept valid at all times)."""
import json
import os

VERIF = os.path.dirname(os.path.dirname(os.path.abspath(__file__)))
ALL = [f'C{i:02d}' for i in range(1, 19)]

CHECKS = {
    'C13': dict(
        level='proof',
        text='Lean 4 theorems about the model of the text helpers (SQL note literal cannot be ended early, expression '
             'pass-through; norm idempotence staged), the model tied to pydbml/tools.py and the renderer utils by an '
             'exhaustive/sampled differential check of all 14 L1 functions, and a model-free oracle that sends texts '
             'through real render->parse at each of 12 text-bearing sites; excluded regions are named reasons with '
             'committed witnesses (known_findings.json).',
        note='trusted: Lean kernel; axioms propext/Classical.choice/Quot.sound; hand-written model tied by sampling; '
             'CPython str/re semantics modelled; site round trip is decided by oracle on sampled texts, not yet by theorem',
        technique='Lean 4 proof over hand-written model + differential correspondence + round-trip oracle',
        design='6/C13'),
}
CHECKS.update({
    'C18': dict(
        level='proof',
        text='Lean 4 theorems: the CREATE TABLE order is a permutation of the tables (perm, nodup, perm_tables) and a function '
             'of table names and hosted inline references only (depends_only_on_model). The first clause (referenced tables '
             'first) is false of the current code: kernel-checked witness chain_violates, replayed on the real code and '
             'recorded as known finding KF-C18-hosts-first (tests pin the behaviour). Model tied to reorder_tables_for_sql / '
             'db.sql by differential testing; order read back by an independent DDL reader.',
        note='trusted: Lean kernel; axioms propext/Classical.choice/Quot.sound; model of sorted() as stable insertion sort, tied by sampling',
        technique='Lean 4 proof (permutation, determinism, counter-example) + differential correspondence + DDL-reader oracle',
        design='6/C18'),
    'C03': dict(
        level='translation_validation',
        text='Lean model of the default SQL renderer tied to the code by differential testing of db.sql and of every '
             'enum/column/index element rendering; model-free oracle reads db.sql back with an independent tokenising DDL '
             'reader and compares types, tables (each exactly once), columns, keys, indexes and COMMENT ON with expectations '
             'computed from the content. Theorems about the statement structure are staged (DESIGN 6/C03).',
        note='trusted: hand-written model tied by sampling; DDL reader; oracle restricted to reader-hygienic names',
        technique='Lean model + differential correspondence + DDL-reader oracle (theorems staged)',
        design='6/C03'),
    'C04': dict(
        level='translation_validation',
        text='Lean model of reference rendering tied to the code by differential testing of the FOREIGN KEY lines of db.sql '
             '(with their enclosing CREATE TABLE) and of every reference.sql; oracle: every FK read back by the independent DDL '
             'reader with its host and compared as a multiset with expectations computed from the references (direction, '
             'column order, CONSTRAINT, actions, inline vs ALTER never both, join tables).',
        note='trusted: hand-written model tied by sampling; DDL reader',
        technique='Lean model + differential correspondence + DDL-reader oracle (theorems staged)',
        design='6/C04'),
})
CHECKS.update({
    'C09': dict(
        level='translation_validation',
        text='Lean state machine of Database.add/delete/rename over a universe of clashing objects, tied to the real classes by '
             'running the same operation histories on both sides (all pairs/triples of 34 core operations, random histories to '
             'length 60) and comparing outcome and canonical state after every step; model-free oracle (lists = added and not '
             'deleted, back-pointers, lookup under current names, snapshots around rejected calls); table-level column/index '
             'histories by oracle. Invariant theorems staged.',
        note='trusted: hand-written model tied by sampling; identity modelled by universe indices',
        technique='Lean state-machine model + history correspondence + invariant oracle (invariant proof staged)',
        design='6/C09'),
})
CHECKS.update({
    'C10': dict(
        level='translation_validation',
        text='The Lean renderer models are functions of the content alone; after every random sequence of 1-15 in-place edits '
             '(30 edit kinds, renderings evaluated before and between edits) db.sql and db.dbml of the real objects must equal '
             'the model rendering of the content read off the live objects, and (model-free oracle) every database and element '
             'rendering must equal that of a database freshly built with the final content.',
        note='no theorem is specific to C10: freedom from caches is a property of the implementation, reached only through the correspondence and the fresh-build oracle',
        technique='Lean renderer model + differential correspondence after edit histories + fresh-build oracle',
        design='6/C10'),
    'C16': dict(
        level='proof',
        text='Lean theorems state the dispatch logic outright (attached top-level elements and columns use the configured '
             'renderer classes, detached elements and owner-less kinds the defaults, a missing handler yields the empty string) '
             'and prove the join structure of db.dbml / db.sql in the model (each element rendering once, in the documented '
             'order; tables exactly once via C18.perm). The dispatch model is tied to the code by enumerating handler subsets x '
             'element kinds x attachment x 5 parser routes; join structure and absence of side effects are checked by oracle on '
             'the real renderers (all renderings in random orders with repeats, model snapshot before/after).',
        note='purity is monitored, not proved (definitional in Lean); trusted: Lean kernel, standard axioms, hand-written model tied by sampling',
        technique='Lean 4 proof (dispatch decision logic, join structure) + exhaustive/sampled correspondence + purity monitor',
        design='6/C16'),
    'C17': dict(
        level='proof',
        text='Decision logic stated outright and proved in Lean over the model of check_attributes_for_sql and the reference '
             'validations (required attribute unset -> AttributeMissing; detached endpoint -> TableNotFound in SQL and DBML; mixed '
             'side -> DBMLError for table1/table2/dbml; composite inline -> DBMLError; detached get_refs). The model is tied to '
             'the real classes by exhaustive enumeration of the finite case space (element kinds x unset subsets x attachment x '
             'construction route; all endpoint assignments x kinds x inline), and the statement is evaluated directly on the real objects.',
        note='trusted: Lean kernel, standard axioms; model tied by exhaustive enumeration of its finite domain',
        technique='Lean 4 proof of decision logic + exhaustive correspondence',
        design='6/C17'),
})
CHECKS.update({
    'C01': dict(
        level='translation_validation',
        text='A Lean character-level model of the whole scannerless grammar (pyparsing primitives, every rule of '
             'pydbml/definitions with its parse action, error stops, build_database) is tied to the real parser by differential '
             'testing on the corpus and on documents written by an independent speller under random spelling choices; the '
             'parser-independent oracle is that the parsed content equals the content the speller was given (nothing dropped, '
             'nothing invented, order kept) and that spellings (incl. inline/short/block Ref and addressing) do not matter. '
             'Named departures from WF are replayed as known findings. The Lean theorem C01_faithful over the model is staged.',
        note='trusted: hand-written model tied by sampling; the speller; theorem about parse∘spell not yet proved',
        technique='Lean parser model + differential correspondence + speller oracle (theorem staged)',
        design='6/C01'),
    'C02': dict(
        level='translation_validation',
        text='Oracle on the real code: content(parse(db.dbml)) == content(db) and the 2nd and 3rd renderings are byte-identical, '
             'for databases parsed from spelled documents, built through the public classes from Expressible values, the corpus, '
             'and wild API-built ones whose named reason outside Expressible must be a listed finding. Correspondence: the Lean '
             'DBML renderer produces the same text and the Lean parser model reads it back to the same content.',
        note='trusted: hand-written models tied by sampling; Expressible predicate (harness/expressible.py); round-trip theorem staged',
        technique='Lean renderer+parser models + differential correspondence + round-trip oracle (theorem staged)',
        design='6/C02'),
})
CHECKS.update({
    'C06': dict(
        level='translation_validation',
        text='A well-formed spelled document plus one injected declaration breaking one rule (13 kinds, any spelling, any '
             'position): the real parser must raise exactly the error class of the rule and never return a database; the Lean '
             'parser+build model must give the same class on every such document.',
        note='trusted: hand-written model tied by sampling; the speller; theorem C06_reject staged',
        technique='Lean parser/build model + differential correspondence + violation-injection oracle',
        design='6/C06'),
})
CHECKS.update({
    'C07': dict(
        level='translation_validation',
        text='Faults of kinds no valid spelling contains (unbalanced structural bracket, column without type, unknown setting / '
             'index type / operator / action, malformed colour, trailing garbage, unterminated last string) are injected into '
             'valid spelled documents at every/random positions: the real parser must never return a database. The Lean '
             'character-level parser model must return the same verdict class on every faulty text and on random token/character '
             'mutants and token soups. Theorem: the model accepts only when StringEnd succeeds on the remaining input '
             '(accepts_only_whole_input); prefix/balance invariants are staged.',
        note='trusted: hand-written model tied by sampling; rejection at every position is explored, not proved',
        technique='Lean parser model + verdict correspondence + fault-injection oracle (+ whole-input theorem)',
        design='6/C07'),
    'C08': dict(
        level='translation_validation',
        text='Any text: the class of an escaping exception must be a parse error, a pydbml exception or SyntaxError, and every '
             'rendering (database and each element, sql and dbml) of an accepted database must not raise a foreign exception. '
             'Inputs: 50 edge documents, wild renderings, mutants, soups, spliced fragments, random Unicode. The Lean model makes '
             'the partial Python operations explicit and must predict the same outcome class for parse, db.sql and db.dbml.',
        note='ParseResults access sites inside parse actions are outside the model (pyparsing naming semantics): carried by exploration',
        technique='Lean parser/renderer model with explicit partial operations + outcome-class correspondence + exploration',
        design='6/C08'),
})
CHECKS.update({
    'C05': dict(
        level='translation_validation',
        text='Oracle on real parsed graphs: every identity fact of the statement evaluated with `is` (reference endpoints are the '
             'very Column objects of the database\'s tables under schema.name / bare / alias addressing, inline references start at '
             'the declaring column, back-pointers of columns, indexes and all notes, index subjects, enum links, group members, '
             'lookup by index / full name / alias, get_refs, unique SQL key holder). Theorems: every table/column position the '
             'model\'s build produces for a reference is in range (links never dangle, never point to a copy); the model is tied '
             'by the parse correspondence where links are positions read off with `is`.',
        note='trusted: Lean kernel + standard axioms for the range theorems; hand-written Build model tied by sampling',
        technique='Lean build model + range theorems + identity oracle on real graphs',
        design='6/C05'),
    'C12': dict(
        level='proof',
        text='Lean theorems over the model of the entry points: all accepting routes hand the parser the same text (one leading BOM '
             'removed) and the same options (parse_file: the defaults), so they produce equal outcomes; a BOM is ignored on every '
             'route; other source types are refused with TypeError. The model is tied to the code by running all 8 routes on the '
             'same texts (plain, BOM, double BOM, non-ASCII, invalid) and comparing outcomes with the model and pairwise.',
        note='UTF-8 decoding of files is Python\'s (trusted); Lean kernel, standard axioms; Entry model tied by enumeration of routes x sampled texts',
        technique='Lean 4 proof over entry-point model + route-by-route correspondence',
        design='6/C12'),
    'C15': dict(
        level='translation_validation',
        text='Spelled documents with table and column properties parsed with the option on (stored exactly, order kept, next to '
             'ordinary settings; flag set) and off (syntax error iff a property is present; otherwise identical content and '
             'renderings), rendering followed through three flips of the database flag at database, table and column level, and '
             'round trip with the flag on. The Lean parser model must agree under both option values; the model rendering with the '
             'flag off must equal the rendering with properties erased. Theorems staged.',
        note='trusted: hand-written models tied by sampling',
        technique='Lean parser/renderer models + correspondence under both option values + flag-flip oracle',
        design='6/C15'),
})
CHECKS.update({
    'C11': dict(
        level='other',
        text='In the Lean model parsing is a function of (text, options): determinism, history independence and interleaving '
             'independence hold there by construction, so no theorem is claimed. That the implementation has no hidden state is '
             'monitored on every run: results after random call histories (including half-way failures) and under 16 '
             'barrier-started threads equal the fresh results and the pure model; the module-level pyparsing grammar is '
             'fingerprinted before/after (identities, parse-action counts, results names, children) together with '
             'Blueprint.parser; results of different calls share no mutable state (edits of one never show in another nor in later '
             'parses); dropped results are reclaimed (weak references, live-object census).',
        note='partial by nature: CPython scheduling, the GIL and the collector are outside any executable model; the monitors are the evidence',
        technique='pure Lean model as reference + runtime monitors (history, threads, fingerprint, aliasing, weakrefs)',
        design='6/C11'),
    'C14': dict(
        level='translation_validation',
        text='Metamorphic oracle on the real parser: each spelled document in three versions with the same base spelling (no '
             'comments / two independent random placements of // and /* */ comments above elements, trailing before or after '
             'settings, and at discarding positions): the content minus comment attributes must be identical and the comment '
             'attributes must be those the placement rules predict (trailing beats above). Rendering oracle with hostile comment '
             'texts: SQL statements read back by the DDL reader are unchanged by comments, every comment line carries its marker, '
             'DBML re-parses to the same content and comments. Lean theorem comment_lines_prefixed proves the marker property for '
             'every text; parser and renderer models must agree on all generated cases.',
        note='trusted: hand-written models tied by sampling; placement rules of the speller; theorem covers the line-prefix clause only',
        technique='Lean models + theorem on comment rendering + metamorphic placement oracle + DDL-reader oracle',
        design='6/C14'),
})
UNDER_CONSTRUCTION = 'check under construction (model and harness being built; see DESIGN.md)'


def main():
    checks = []
    for pid in ALL:
        if pid not in CHECKS:
            continue
        c = CHECKS[pid]
        checks.append({
            'property_id': pid,
            'quick_cmd': f'./check {pid} --tier quick',
            'thorough_cmd': f'./check {pid} --tier thorough',
            'evidence_file': f'/verif/evidence/{pid}.json',
            'replay_cmd_template': f'./check {pid} --replay {{path}}',
            'engine': 'lean-model+harness',
            'level_claimed': {'category': c['level'], 'text': c['text'], 'design_ref': c['design']},
            'level_note': c['note'],
            'technique': c['technique'],
        })
    m = {
        'version': 1,
        'setup_cmd': 'cd /verif/lean && lake build',
        'hooks': {
            'guard': 'PYDBML_VERIF',
            'enable': 'no hooks: the harness imports pydbml from /repo\'s working tree and observes it through the public surface',
            'baseline_off_cmd': 'cd /repo && /venv/bin/python -m pytest -q -p no:cacheprovider',
            'source_commits': [],
            'add_only': True,
        },
        'engines': [{'name': 'lean-model+harness', 'path': '/verif/check',
                     'serves_properties': sorted(CHECKS),
                     'kind_free_text': 'Lean 4 model (lean/PyDBMLModel) with theorems (lean/PyDBMLProofs), compiled driver '
                                       'speaking a JSON line protocol, Python harness running the real pydbml from /repo'}],
        'checks': checks,
        'not_applicable': [{'property_id': p, 'reason': UNDER_CONSTRUCTION} for p in ALL if p not in CHECKS],
        'notes': 'see DESIGN.md; known_findings.json lists recorded defects and fix: commits',
    }
    with open(os.path.join(VERIF, 'MANIFEST.json'), 'w') as f:
        json.dump(m, f, indent=1)
    try:
        import jsonschema
        jsonschema.validate(m, json.load(open('/root/.vp/MANIFEST.schema.json')))
        print('MANIFEST valid;', len(checks), 'checks')
    except ImportError:
        print('written (jsonschema not available)')


if __name__ == '__main__':
    main()
