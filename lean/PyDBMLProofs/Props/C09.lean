/-
C09 — the container stays consistent under any sequence of add, delete and rename.
-/
import PyDBMLModel
namespace PyDBML
namespace C09
open Cont

/-- members list and back-pointer flags agree: no member twice, and an object's back-pointer is set
    exactly when it is a member -/
def Linked (members : List Nat) (flag : Nat → Option Bool) : Prop :=
  members.Nodup ∧ ∀ i, flag i = some true ↔ i ∈ members

def tFlag (s : St) (i : Nat) : Option Bool := (s.T[i]?).map (·.inDb)
def rFlag (s : St) (i : Nat) : Option Bool := (s.R[i]?).map (·.inDb)
def eFlag (s : St) (i : Nat) : Option Bool := (s.E[i]?).map (·.inDb)
def gFlag (s : St) (i : Nat) : Option Bool := (s.G[i]?).map (·.inDb)
def nFlag (s : St) (i : Nat) : Option Bool := s.N[i]?
def pFlag (s : St) (i : Nat) : Option Bool := s.P[i]?

/-- the container invariant -/
structure Inv (s : St) : Prop where
  tables : Linked s.tables (tFlag s)
  refs : Linked s.refs (rFlag s)
  enums : Linked s.enums (eFlag s)
  groups : Linked s.groups (gFlag s)
  sticky : Linked s.sticky (nFlag s)
  project : ∀ i, pFlag s i = some true ↔ s.project = some i

/-! ### generic lemmas -/

theorem Linked.add {m : List Nat} {f f' : Nat → Option Bool} {i : Nat} (h : Linked m f) (hi : i ∉ m)
    (hf : ∀ j, f' j = if j = i then some true else f j) : Linked (m ++ [i]) f' := by
  refine ⟨?_, ?_⟩
  · rw [List.nodup_append]
    refine ⟨h.1, by simp, ?_⟩
    intro a ha b hb
    simp at hb
    subst hb
    intro hab
    subst hab
    exact hi ha
  · intro j
    rw [hf j]
    by_cases hj : j = i
    · simp [hj]
    · simp [hj, h.2 j]

theorem mem_eraseIdx_of_nodup {m : List Nat} (hn : m.Nodup) {k x : Nat} (hk : m[k]? = some x) (j : Nat) :
    j ∈ m.eraseIdx k ↔ j ∈ m ∧ j ≠ x := by
  induction m generalizing k with
  | nil => simp at hk
  | cons a as ih =>
    cases k with
    | zero =>
      simp at hk
      subst hk
      simp only [List.eraseIdx_cons_zero, List.mem_cons]
      have ha : a ∉ as := (List.nodup_cons.mp hn).1
      constructor
      · intro h; exact ⟨Or.inr h, fun e => ha (e ▸ h)⟩
      · rintro ⟨h | h, hne⟩
        · exact absurd h hne
        · exact h
    | succ k =>
      simp only [List.getElem?_cons_succ] at hk
      simp only [List.eraseIdx_cons_succ, List.mem_cons]
      have hn' := (List.nodup_cons.mp hn)
      have hx : x ∈ as := List.mem_of_getElem? hk
      rw [ih hn'.2 hk]
      constructor
      · rintro (h | ⟨h, hne⟩)
        · exact ⟨Or.inl h, fun e => hn'.1 (by rw [← e, h] at hx; exact hx)⟩
        · exact ⟨Or.inr h, hne⟩
      · rintro ⟨h | h, hne⟩
        · exact Or.inl h
        · exact Or.inr ⟨h, hne⟩

theorem Linked.del {m : List Nat} {f f' : Nat → Option Bool} {k x : Nat} (h : Linked m f)
    (hk : m[k]? = some x) (hf : ∀ j, f' j = if j = x then (f j).map (fun _ => false) else f j) :
    Linked (m.eraseIdx k) f' := by
  refine ⟨h.1.sublist (List.eraseIdx_sublist m k), ?_⟩
  intro j
  rw [hf j, mem_eraseIdx_of_nodup h.1 hk]
  by_cases hj : j = x
  · subst hj
    cases f j <;> simp
  · simp [hj, h.2 j]

theorem Linked.congr {m : List Nat} {f f' : Nat → Option Bool} (h : Linked m f) (hf : ∀ j, f' j = f j) :
    Linked m f' :=
  ⟨h.1, fun j => by rw [hf j]; exact h.2 j⟩

theorem not_mem_of_indexOf_none {members : List Nat} {i : Nat} {eq : Nat → Bool}
    (h : indexOf members i eq = none) : i ∉ members := by
  unfold indexOf at h
  rw [List.findIdx?_eq_none_iff] at h
  intro hm
  have := h i hm
  simp at this

theorem getElem?_of_indexOf_some {members : List Nat} {i k : Nat} {eq : Nat → Bool}
    (h : indexOf members i eq = some k) : ∃ x, members[k]? = some x := by
  unfold indexOf at h
  have := (List.findIdx?_eq_some_iff_getElem.mp h).1
  exact ⟨members[k], List.getElem?_eq_getElem this⟩

theorem not_mem_of_idIndex_none {members : List Nat} {i : Nat} (h : idIndex members i = none) : i ∉ members := by
  unfold idIndex at h
  rw [List.findIdx?_eq_none_iff] at h
  intro hm
  have := h i hm
  simp at this

theorem getElem?_of_idIndex_some {members : List Nat} {i k : Nat} (h : idIndex members i = some k) :
    members[k]? = some i := by
  unfold idIndex at h
  obtain ⟨hk, hp, _⟩ := List.findIdx?_eq_some_iff_getElem.mp h
  simp at hp
  rw [List.getElem?_eq_getElem hk, hp]

/-! ### how a step changes the flags -/

theorem getElem?_modify' {α} (l : List α) (i j : Nat) (g : α → α) :
    (l.modify i g)[j]? = if j = i then (l[j]?).map g else l[j]? := by
  rw [List.getElem?_modify]
  by_cases h : j = i
  · subst h; simp
  · have : ¬ i = j := fun e => h e.symm
    simp [h, this]

theorem tFlag_setT (s : St) (i : Nat) (g : TObj → TObj) (j : Nat) :
    tFlag (setT s i g) j = if j = i then (s.T[j]?).map (fun t => (g t).inDb) else tFlag s j := by
  unfold tFlag setT
  simp only [getElem?_modify']
  by_cases h : j = i <;> simp [h, Option.map_map, Function.comp_def]

theorem setT_other (s : St) (i : Nat) (g : TObj → TObj) :
    (setT s i g).R = s.R ∧ (setT s i g).E = s.E ∧ (setT s i g).G = s.G ∧ (setT s i g).N = s.N
    ∧ (setT s i g).P = s.P ∧ (setT s i g).tables = s.tables ∧ (setT s i g).refs = s.refs
    ∧ (setT s i g).enums = s.enums ∧ (setT s i g).groups = s.groups ∧ (setT s i g).sticky = s.sticky
    ∧ (setT s i g).project = s.project := by
  simp [setT]

/-- renaming (name / schema / alias) keeps every back-pointer -/
theorem inv_setT_keep (s : St) (i : Nat) (g : TObj → TObj) (hg : ∀ t, (g t).inDb = t.inDb) (h : Inv s) :
    Inv (setT s i g) := by
  have ho := setT_other s i g
  have hf : ∀ j, tFlag (setT s i g) j = tFlag s j := by
    intro j
    rw [tFlag_setT]
    by_cases hj : j = i
    · simp [hj, tFlag, hg]
    · simp [hj]
  exact {
    tables := by rw [ho.2.2.2.2.2.1]; exact h.tables.congr hf
    refs := by
      have : rFlag (setT s i g) = rFlag s := by funext j; simp [rFlag, ho.1]
      rw [ho.2.2.2.2.2.2.1, this]; exact h.refs
    enums := by
      have : eFlag (setT s i g) = eFlag s := by funext j; simp [eFlag, ho.2.1]
      rw [ho.2.2.2.2.2.2.2.1, this]; exact h.enums
    groups := by
      have : gFlag (setT s i g) = gFlag s := by funext j; simp [gFlag, ho.2.2.1]
      rw [ho.2.2.2.2.2.2.2.2.1, this]; exact h.groups
    sticky := by
      have : nFlag (setT s i g) = nFlag s := by funext j; simp [nFlag, ho.2.2.2.1]
      rw [ho.2.2.2.2.2.2.2.2.2.1, this]; exact h.sticky
    project := by
      intro j
      have : pFlag (setT s i g) j = pFlag s j := by simp [pFlag, ho.2.2.2.2.1]
      rw [this, ho.2.2.2.2.2.2.2.2.2.2]; exact h.project j }

/-! ### frame lemmas: a step touches one component -/

theorem frame_tables {s s' : St} (h : Inv s) (hR : s'.R = s.R) (hE : s'.E = s.E) (hG : s'.G = s.G)
    (hN : s'.N = s.N) (hP : s'.P = s.P) (h1 : s'.refs = s.refs) (h2 : s'.enums = s.enums)
    (h3 : s'.groups = s.groups) (h4 : s'.sticky = s.sticky) (h5 : s'.project = s.project)
    (ht : Linked s'.tables (tFlag s')) : Inv s' :=
  { tables := ht
    refs := by have : rFlag s' = rFlag s := by funext j; simp [rFlag, hR]
               rw [h1, this]; exact h.refs
    enums := by have : eFlag s' = eFlag s := by funext j; simp [eFlag, hE]
                rw [h2, this]; exact h.enums
    groups := by have : gFlag s' = gFlag s := by funext j; simp [gFlag, hG]
                 rw [h3, this]; exact h.groups
    sticky := by have : nFlag s' = nFlag s := by funext j; simp [nFlag, hN]
                 rw [h4, this]; exact h.sticky
    project := by intro j
                  have : pFlag s' j = pFlag s j := by simp [pFlag, hP]
                  rw [this, h5]; exact h.project j }

theorem frame_refs {s s' : St} (h : Inv s) (hT : s'.T = s.T) (hE : s'.E = s.E) (hG : s'.G = s.G)
    (hN : s'.N = s.N) (hP : s'.P = s.P) (h1 : s'.tables = s.tables) (h2 : s'.enums = s.enums)
    (h3 : s'.groups = s.groups) (h4 : s'.sticky = s.sticky) (h5 : s'.project = s.project)
    (ht : Linked s'.refs (rFlag s')) : Inv s' :=
  { refs := ht
    tables := by have : tFlag s' = tFlag s := by funext j; simp [tFlag, hT]
                 rw [h1, this]; exact h.tables
    enums := by have : eFlag s' = eFlag s := by funext j; simp [eFlag, hE]
                rw [h2, this]; exact h.enums
    groups := by have : gFlag s' = gFlag s := by funext j; simp [gFlag, hG]
                 rw [h3, this]; exact h.groups
    sticky := by have : nFlag s' = nFlag s := by funext j; simp [nFlag, hN]
                 rw [h4, this]; exact h.sticky
    project := by intro j
                  have : pFlag s' j = pFlag s j := by simp [pFlag, hP]
                  rw [this, h5]; exact h.project j }

theorem frame_enums {s s' : St} (h : Inv s) (hT : s'.T = s.T) (hR : s'.R = s.R) (hG : s'.G = s.G)
    (hN : s'.N = s.N) (hP : s'.P = s.P) (h1 : s'.tables = s.tables) (h2 : s'.refs = s.refs)
    (h3 : s'.groups = s.groups) (h4 : s'.sticky = s.sticky) (h5 : s'.project = s.project)
    (ht : Linked s'.enums (eFlag s')) : Inv s' :=
  { enums := ht
    tables := by have : tFlag s' = tFlag s := by funext j; simp [tFlag, hT]
                 rw [h1, this]; exact h.tables
    refs := by have : rFlag s' = rFlag s := by funext j; simp [rFlag, hR]
               rw [h2, this]; exact h.refs
    groups := by have : gFlag s' = gFlag s := by funext j; simp [gFlag, hG]
                 rw [h3, this]; exact h.groups
    sticky := by have : nFlag s' = nFlag s := by funext j; simp [nFlag, hN]
                 rw [h4, this]; exact h.sticky
    project := by intro j
                  have : pFlag s' j = pFlag s j := by simp [pFlag, hP]
                  rw [this, h5]; exact h.project j }

theorem frame_groups {s s' : St} (h : Inv s) (hT : s'.T = s.T) (hR : s'.R = s.R) (hE : s'.E = s.E)
    (hN : s'.N = s.N) (hP : s'.P = s.P) (h1 : s'.tables = s.tables) (h2 : s'.refs = s.refs)
    (h3 : s'.enums = s.enums) (h4 : s'.sticky = s.sticky) (h5 : s'.project = s.project)
    (ht : Linked s'.groups (gFlag s')) : Inv s' :=
  { groups := ht
    tables := by have : tFlag s' = tFlag s := by funext j; simp [tFlag, hT]
                 rw [h1, this]; exact h.tables
    refs := by have : rFlag s' = rFlag s := by funext j; simp [rFlag, hR]
               rw [h2, this]; exact h.refs
    enums := by have : eFlag s' = eFlag s := by funext j; simp [eFlag, hE]
                rw [h3, this]; exact h.enums
    sticky := by have : nFlag s' = nFlag s := by funext j; simp [nFlag, hN]
                 rw [h4, this]; exact h.sticky
    project := by intro j
                  have : pFlag s' j = pFlag s j := by simp [pFlag, hP]
                  rw [this, h5]; exact h.project j }

theorem frame_sticky {s s' : St} (h : Inv s) (hT : s'.T = s.T) (hR : s'.R = s.R) (hE : s'.E = s.E)
    (hG : s'.G = s.G) (hP : s'.P = s.P) (h1 : s'.tables = s.tables) (h2 : s'.refs = s.refs)
    (h3 : s'.enums = s.enums) (h4 : s'.groups = s.groups) (h5 : s'.project = s.project)
    (ht : Linked s'.sticky (nFlag s')) : Inv s' :=
  { sticky := ht
    tables := by have : tFlag s' = tFlag s := by funext j; simp [tFlag, hT]
                 rw [h1, this]; exact h.tables
    refs := by have : rFlag s' = rFlag s := by funext j; simp [rFlag, hR]
               rw [h2, this]; exact h.refs
    enums := by have : eFlag s' = eFlag s := by funext j; simp [eFlag, hE]
                rw [h3, this]; exact h.enums
    groups := by have : gFlag s' = gFlag s := by funext j; simp [gFlag, hG]
                 rw [h4, this]; exact h.groups
    project := by intro j
                  have : pFlag s' j = pFlag s j := by simp [pFlag, hP]
                  rw [this, h5]; exact h.project j }

theorem frame_project {s s' : St} (h : Inv s) (hT : s'.T = s.T) (hR : s'.R = s.R) (hE : s'.E = s.E)
    (hG : s'.G = s.G) (hN : s'.N = s.N) (h1 : s'.tables = s.tables) (h2 : s'.refs = s.refs)
    (h3 : s'.enums = s.enums) (h4 : s'.groups = s.groups) (h5 : s'.sticky = s.sticky)
    (ht : ∀ i, pFlag s' i = some true ↔ s'.project = some i) : Inv s' :=
  { project := ht
    tables := by have : tFlag s' = tFlag s := by funext j; simp [tFlag, hT]
                 rw [h1, this]; exact h.tables
    refs := by have : rFlag s' = rFlag s := by funext j; simp [rFlag, hR]
               rw [h2, this]; exact h.refs
    enums := by have : eFlag s' = eFlag s := by funext j; simp [eFlag, hE]
                rw [h3, this]; exact h.enums
    groups := by have : gFlag s' = gFlag s := by funext j; simp [gFlag, hG]
                 rw [h4, this]; exact h.groups
    sticky := by have : nFlag s' = nFlag s := by funext j; simp [nFlag, hN]
                 rw [h5, this]; exact h.sticky }

/-! ### one step -/

theorem step_add_table (s : St) (i : Nat) (h : Inv s) : Inv (step s (.add .table i)).1 := by
  simp only [step]
  cases hT : s.T[i]? with
  | none => simpa using h
  | some t =>
    simp only
    cases hidx : tIndex s i with
    | some k => simpa using h
    | none =>
      simp only [Option.isSome_none, Bool.false_eq_true, ↓reduceIte]
      have hi : i ∉ s.tables := by
        unfold tIndex at hidx
        rw [hT] at hidx
        exact not_mem_of_indexOf_none hidx
      have key : Inv { setT s i (fun t => { t with inDb := true }) with tables := s.tables ++ [i] } := by
        refine frame_tables h rfl rfl rfl rfl rfl rfl rfl rfl rfl rfl ?_
        refine Linked.add h.tables hi ?_
        intro j
        show tFlag (setT s i _) j = _
        rw [tFlag_setT]
        by_cases hj : j = i
        · subst hj; simp [hT]
        · simp [hj]
      split
      · exact h
      · split
        · split
          · exact h
          · exact key
        · simpa using key

theorem flag_modify {α} (inDb : α → Bool) (l : List α) (i j : Nat) (g : α → α) :
    ((l.modify i g)[j]?).map inDb = if j = i then (l[j]?).map (fun x => inDb (g x)) else (l[j]?).map inDb := by
  rw [getElem?_modify']
  by_cases h : j = i <;> simp [h, Option.map_map, Function.comp_def]

theorem getElem?_set' (l : List Bool) (i j : Nat) (v : Bool) :
    (l.set i v)[j]? = if j = i then (l[j]?).map (fun _ => v) else l[j]? := by
  rw [List.getElem?_set]
  by_cases h : j = i
  · subst h
    by_cases hl : j < l.length
    · simp [hl]
    · simp [hl]
  · have : ¬ i = j := fun e => h e.symm
    simp [h, this]

theorem step_delete_table (s : St) (i : Nat) (h : Inv s) : Inv (step s (.delete .table i)).1 := by
  simp only [step]
  cases hidx : tIndex s i with
  | none => simpa using h
  | some k =>
    simp only
    cases hm : s.tables[k]? with
    | none => simpa using h
    | some m =>
      simp only
      refine frame_tables h rfl rfl rfl rfl rfl rfl rfl rfl rfl rfl ?_
      refine Linked.del h.tables hm ?_
      intro j
      show tFlag (setT s m _) j = _
      rw [tFlag_setT]
      by_cases hj : j = m
      · subst hj; simp [tFlag, Option.map_map, Function.comp_def]
      · simp [hj]

theorem step_add_ref (s : St) (i : Nat) (h : Inv s) : Inv (step s (.add .ref i)).1 := by
  simp only [step]
  cases hR : s.R[i]? with
  | none => simpa using h
  | some r =>
    simp only
    split
    · exact h
    · cases hidx : rIndex s i with
      | some k => simpa using h
      | none =>
        simp only [Option.isSome_none, Bool.false_eq_true, ↓reduceIte]
        have hi : i ∉ s.refs := by
          unfold rIndex at hidx
          rw [hR] at hidx
          exact not_mem_of_indexOf_none hidx
        refine frame_refs h rfl rfl rfl rfl rfl rfl rfl rfl rfl rfl ?_
        refine Linked.add h.refs hi ?_
        intro j
        show ((s.R.modify i _)[j]?).map (·.inDb) = _
        rw [flag_modify]
        by_cases hj : j = i
        · subst hj; simp [hR]
        · simp [hj, rFlag]

theorem step_delete_ref (s : St) (i : Nat) (h : Inv s) : Inv (step s (.delete .ref i)).1 := by
  simp only [step]
  cases hidx : rIndex s i with
  | none => simpa using h
  | some k =>
    simp only
    cases hm : s.refs[k]? with
    | none => simpa using h
    | some m =>
      simp only
      refine frame_refs h rfl rfl rfl rfl rfl rfl rfl rfl rfl rfl ?_
      refine Linked.del h.refs hm ?_
      intro j
      show ((s.R.modify m _)[j]?).map (·.inDb) = _
      rw [flag_modify]
      by_cases hj : j = m
      · subst hj; simp [rFlag, Option.map_map, Function.comp_def]
      · simp [hj, rFlag]

theorem step_add_enum (s : St) (i : Nat) (h : Inv s) : Inv (step s (.add .enum i)).1 := by
  simp only [step]
  cases hE : s.E[i]? with
  | none => simpa using h
  | some e =>
    simp only
    cases hidx : eIndex s i with
    | some k => simpa using h
    | none =>
      simp only [Option.isSome_none, Bool.false_eq_true, ↓reduceIte]
      split
      · exact h
      · have hi : i ∉ s.enums := by
          unfold eIndex at hidx
          rw [hE] at hidx
          exact not_mem_of_indexOf_none hidx
        refine frame_enums h rfl rfl rfl rfl rfl rfl rfl rfl rfl rfl ?_
        refine Linked.add h.enums hi ?_
        intro j
        show ((s.E.modify i _)[j]?).map (·.inDb) = _
        rw [flag_modify]
        by_cases hj : j = i
        · subst hj; simp [hE]
        · simp [hj, eFlag]

theorem step_delete_enum (s : St) (i : Nat) (h : Inv s) : Inv (step s (.delete .enum i)).1 := by
  simp only [step]
  cases hidx : eIndex s i with
  | none => simpa using h
  | some k =>
    simp only
    cases hm : s.enums[k]? with
    | none => simpa using h
    | some m =>
      simp only
      refine frame_enums h rfl rfl rfl rfl rfl rfl rfl rfl rfl rfl ?_
      refine Linked.del h.enums hm ?_
      intro j
      show ((s.E.modify m _)[j]?).map (·.inDb) = _
      rw [flag_modify]
      by_cases hj : j = m
      · subst hj; simp [eFlag, Option.map_map, Function.comp_def]
      · simp [hj, eFlag]

theorem step_add_group (s : St) (i : Nat) (h : Inv s) : Inv (step s (.add .group i)).1 := by
  simp only [step]
  cases hG : s.G[i]? with
  | none => simpa using h
  | some g =>
    simp only
    cases hidx : idIndex s.groups i with
    | some k => simpa using h
    | none =>
      simp only [Option.isSome_none, Bool.false_eq_true, ↓reduceIte]
      split
      · exact h
      · have hi : i ∉ s.groups := not_mem_of_idIndex_none hidx
        refine frame_groups h rfl rfl rfl rfl rfl rfl rfl rfl rfl rfl ?_
        refine Linked.add h.groups hi ?_
        intro j
        show ((s.G.modify i _)[j]?).map (·.inDb) = _
        rw [flag_modify]
        by_cases hj : j = i
        · subst hj; simp [hG]
        · simp [hj, gFlag]

theorem step_delete_group (s : St) (i : Nat) (h : Inv s) : Inv (step s (.delete .group i)).1 := by
  simp only [step]
  cases hidx : idIndex s.groups i with
  | none => simpa using h
  | some k =>
    simp only
    have hm := getElem?_of_idIndex_some hidx
    refine frame_groups h rfl rfl rfl rfl rfl rfl rfl rfl rfl rfl ?_
    refine Linked.del h.groups hm ?_
    intro j
    show ((s.G.modify i _)[j]?).map (·.inDb) = _
    rw [flag_modify]
    by_cases hj : j = i
    · subst hj; simp [gFlag, Option.map_map, Function.comp_def]
    · simp [hj, gFlag]

theorem step_add_sticky (s : St) (i : Nat) (h : Inv s) : Inv (step s (.add .sticky i)).1 := by
  simp only [step]
  cases hN : s.N[i]? with
  | none => simpa using h
  | some b =>
    simp only
    cases hidx : idIndex s.sticky i with
    | some k => simpa using h
    | none =>
      simp only [Option.isSome_none, Bool.false_eq_true, ↓reduceIte]
      have hi : i ∉ s.sticky := not_mem_of_idIndex_none hidx
      refine frame_sticky h rfl rfl rfl rfl rfl rfl rfl rfl rfl rfl ?_
      refine Linked.add h.sticky hi ?_
      intro j
      show (s.N.set i true)[j]? = _
      rw [getElem?_set']
      by_cases hj : j = i
      · subst hj; simp [hN]
      · simp [hj, nFlag]

theorem step_delete_sticky (s : St) (i : Nat) (h : Inv s) : Inv (step s (.delete .sticky i)).1 := by
  simp only [step]
  cases hidx : idIndex s.sticky i with
  | none => simpa using h
  | some k =>
    simp only
    have hm := getElem?_of_idIndex_some hidx
    refine frame_sticky h rfl rfl rfl rfl rfl rfl rfl rfl rfl rfl ?_
    refine Linked.del h.sticky hm ?_
    intro j
    show (s.N.set i false)[j]? = _
    rw [getElem?_set']
    by_cases hj : j = i
    · subst hj; simp [nFlag]
    · simp [hj, nFlag]

theorem step_add_project (s : St) (i : Nat) (h : Inv s) : Inv (step s (.add .project i)).1 := by
  simp only [step]
  cases hP : s.P[i]? with
  | none => simpa using h
  | some b =>
    simp only
    refine frame_project h rfl rfl rfl rfl rfl rfl rfl rfl rfl rfl ?_
    intro j
    show ((match s.project with | some p => s.P.set p false | none => s.P).set i true)[j]? = some true ↔ some i = some j
    rw [getElem?_set']
    by_cases hj : j = i
    · subst hj
      cases hpr : s.project with
      | none => simp [hP]
      | some p =>
        simp only
        rw [getElem?_set']
        by_cases hjp : j = p
        · subst hjp; cases b <;> simp [hP]
        · simp [hjp, hP]
    · have hne : ¬ i = j := fun e => hj e.symm
      simp only [hj, ↓reduceIte, Option.some.injEq, hne, iff_false]
      cases hpr : s.project with
      | none =>
        simp only
        intro hx
        have := (h.project j).mp hx
        rw [hpr] at this
        cases this
      | some p =>
        simp only
        rw [getElem?_set']
        by_cases hjp : j = p
        · subst hjp
          cases s.P[j]? <;> simp
        · simp only [hjp, ↓reduceIte]
          intro hx
          have := (h.project j).mp hx
          rw [hpr] at this
          exact hjp (Option.some.inj this).symm

theorem step_delete_project (s : St) (h : Inv s) : Inv (step s .deleteProject).1 := by
  simp only [step]
  cases hpr : s.project with
  | none => simpa using h
  | some p =>
    simp only
    refine frame_project h rfl rfl rfl rfl rfl rfl rfl rfl rfl rfl ?_
    intro j
    show (s.P.set p false)[j]? = some true ↔ none = some j
    rw [getElem?_set']
    by_cases hjp : j = p
    · subst hjp
      cases s.P[j]? <;> simp
    · simp only [hjp, ↓reduceIte, reduceCtorEq, iff_false]
      intro hx
      have := (h.project j).mp hx
      rw [hpr] at this
      exact hjp (Option.some.inj this).symm

/-- every operation keeps the container invariant -/
theorem step_inv (s : St) (op : Op) (h : Inv s) : Inv (step s op).1 := by
  cases op with
  | add k i =>
    cases k with
    | table => exact step_add_table s i h
    | ref => exact step_add_ref s i h
    | enum => exact step_add_enum s i h
    | group => exact step_add_group s i h
    | sticky => exact step_add_sticky s i h
    | project => exact step_add_project s i h
    | other => simpa [step] using h
  | delete k i =>
    cases k with
    | table => exact step_delete_table s i h
    | ref => exact step_delete_ref s i h
    | enum => exact step_delete_enum s i h
    | group => exact step_delete_group s i h
    | sticky => exact step_delete_sticky s i h
    | project => exact step_delete_project s h
    | other => simpa [step] using h
  | deleteSticky i => exact step_delete_sticky s i h
  | deleteProject => exact step_delete_project s h
  | setName i n =>
    simp only [step]
    split
    · exact inv_setT_keep s i _ (fun _ => rfl) h
    · exact h
  | setSchema i n =>
    simp only [step]
    split
    · exact inv_setT_keep s i _ (fun _ => rfl) h
    · exact h
  | setAlias i a =>
    simp only [step]
    split
    · exact inv_setT_keep s i _ (fun _ => rfl) h
    · exact h

/-- …hence after ANY history of operations, successful or rejected, interleaved with renames -/
theorem reach_inv (s : St) (ops : List Op) (h : Inv s) : Inv (run s ops) := by
  unfold run
  induction ops generalizing s with
  | nil => exact h
  | cons op ops ih => exact ih _ (step_inv s op h)

/-- a fresh database over any universe of detached objects satisfies the invariant -/
theorem init_inv (T : List TObj) (R : List RObj) (E : List EObj) (G : List GObj) (n p : Nat)
    (hT : ∀ t ∈ T, t.inDb = false) (hR : ∀ r ∈ R, r.inDb = false) (hE : ∀ e ∈ E, e.inDb = false)
    (hG : ∀ g ∈ G, g.inDb = false) :
    Inv { T := T, R := R, E := E, G := G, N := List.replicate n false, P := List.replicate p false } := by
  refine ⟨⟨List.nodup_nil, ?_⟩, ⟨List.nodup_nil, ?_⟩, ⟨List.nodup_nil, ?_⟩, ⟨List.nodup_nil, ?_⟩,
          ⟨List.nodup_nil, ?_⟩, ?_⟩
  · intro i
    simp only [tFlag, List.not_mem_nil, iff_false]
    cases h : T[i]? with
    | none => simp
    | some t => simp [hT t (List.mem_of_getElem? h)]
  · intro i
    simp only [rFlag, List.not_mem_nil, iff_false]
    cases h : R[i]? with
    | none => simp
    | some t => simp [hR t (List.mem_of_getElem? h)]
  · intro i
    simp only [eFlag, List.not_mem_nil, iff_false]
    cases h : E[i]? with
    | none => simp
    | some t => simp [hE t (List.mem_of_getElem? h)]
  · intro i
    simp only [gFlag, List.not_mem_nil, iff_false]
    cases h : G[i]? with
    | none => simp
    | some t => simp [hG t (List.mem_of_getElem? h)]
  · intro i
    simp only [nFlag, List.not_mem_nil, iff_false]
    intro h
    have := List.mem_of_getElem? h
    simp at this
  · intro i
    simp only [pFlag, reduceCtorEq, iff_false]
    intro h
    have := List.mem_of_getElem? h
    simp at this

/-- an operation that is rejected (or names no object) leaves the database exactly as it was -/
theorem rejected_unchanged (s : St) (op : Op) (h : (step s op).2 ≠ .ok) : (step s op).1 = s := by
  cases op with
  | add k i =>
    cases k <;> simp only [step] at h ⊢ <;> (repeat' split) <;> simp_all
  | delete k i =>
    cases k <;> simp only [step] at h ⊢ <;> (repeat' split) <;> simp_all
  | deleteSticky i => simp only [step] at h ⊢; (repeat' split) <;> simp_all
  | deleteProject => simp only [step] at h ⊢; (repeat' split) <;> simp_all
  | setName i n => simp only [step] at h ⊢; (repeat' split) <;> simp_all
  | setSchema i n => simp only [step] at h ⊢; (repeat' split) <;> simp_all
  | setAlias i a => simp only [step] at h ⊢; (repeat' split) <;> simp_all

/-- iteration / positional lookup: the table list only ever changes by appending the added table or
    removing the deleted member — "the tables added and not deleted, in insertion order" -/
theorem tables_step (s : St) (op : Op) :
    (step s op).1.tables = s.tables
    ∨ (∃ i, op = .add .table i ∧ (step s op).2 = .ok ∧ (step s op).1.tables = s.tables ++ [i])
    ∨ (∃ i k, op = .delete .table i ∧ (step s op).2 = .ok ∧ (step s op).1.tables = s.tables.eraseIdx k) := by
  cases op with
  | add k i =>
    cases k
    case table =>
      simp only [step]
      (repeat' split) <;> first
        | (left; rfl)
        | (right; left; exact ⟨i, rfl, rfl, rfl⟩)
    all_goals (left; simp only [step] <;> (repeat' split) <;> rfl)
  | delete k i =>
    cases k
    case table =>
      simp only [step]
      (repeat' split) <;> first
        | (left; rfl)
        | (right; right; exact ⟨i, _, rfl, rfl, rfl⟩)
    all_goals (left; simp only [step] <;> (repeat' split) <;> rfl)
  | deleteSticky i => left; simp only [step]; (repeat' split) <;> rfl
  | deleteProject => left; simp only [step]; (repeat' split) <;> rfl
  | setName i n => left; simp only [step]; (repeat' split) <;> simp [setT]
  | setSchema i n => left; simp only [step]; (repeat' split) <;> simp [setT]
  | setAlias i a => left; simp only [step]; (repeat' split) <;> simp [setT]

/-- lookup by full name or alias only ever finds a contained table, under one of its CURRENT names -/
theorem lookup_sound (s : St) (key : Str) (i : Nat) (h : lookup s key = some i) :
    i ∈ s.tables ∧ ∃ t, s.T[i]? = some t ∧ (t.fullName = key ∨ t.alias = some key) := by
  unfold lookup at h
  cases hf : (dictSeq s).reverse.find? (fun p => p.1 == key) with
  | none => simp [hf] at h
  | some p =>
    simp [hf] at h
    have hmem := List.mem_of_find?_eq_some hf
    have hkey := List.find?_some hf
    simp at hmem hkey
    subst h
    unfold dictSeq at hmem
    rw [List.mem_flatMap] at hmem
    obtain ⟨j, hj, hp⟩ := hmem
    cases hT : s.T[j]? with
    | none => simp [hT] at hp
    | some t =>
      simp only [hT] at hp
      rcases List.mem_cons.mp hp with rfl | hp
      · exact ⟨hj, t, hT, Or.inl hkey⟩
      · cases ha : t.alias with
        | none => simp [ha] at hp
        | some a =>
          simp [ha] at hp
          subst hp
          exact ⟨hj, t, hT, Or.inr (by simpa [ha] using congrArg some hkey)⟩

/-- setting a new project replaces the old one and detaches it -/
theorem project_replaced (s : St) (i p : Nat) (hi : i < s.P.length) (hp : s.project = some p) (hne : p ≠ i) :
    (step s (.add .project i)).1.project = some i ∧ pFlag (step s (.add .project i)).1 p = (pFlag s p).map (fun _ => false)
    ∧ (step s (.add .project i)).2 = .ok := by
  simp only [step]
  have : s.P[i]? = some s.P[i] := List.getElem?_eq_getElem hi
  simp only [this, hp, pFlag, true_and, and_true]
  rw [getElem?_set', getElem?_set']
  simp [hne]

end C09
end PyDBML
