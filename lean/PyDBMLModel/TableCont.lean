/-
L2, one level down: a `Table` as a container of its columns and indexes (`add_column`, `delete_column`,
`add_index`, `delete_index`, by object or by position), over a universe of column objects with identities.
`owner` is the column's `table` back-pointer (this table / another table / none); equality is the modelled
`__eq__`: the owning table's full name and everything but `table` for `Column` (an equivalence class `cls`), and for `Index` the subjects
(element-wise: the same object, or equal) and everything else but `table`.  Index objects are created by the
history itself (`newIndex`), as the harness does.
-/
import PyDBMLModel.Model
namespace PyDBML
namespace TCont

inductive Owner where
  | none | this | other
  deriving Repr, DecidableEq, Inhabited

structure CObj where
  cls : Nat               -- class of everything `Column.__eq__` compares (name, type, flags, default, note, …)
  owner : Owner := .none
  deriving Repr, DecidableEq, Inhabited

inductive Subj where
  | col (i : Nat)         -- a column object of the universe
  | expr (cls : Nat)      -- an `Expression` (compared by its text)
  deriving Repr, DecidableEq, Inhabited

structure IObj where
  subjects : List Subj
  cls : Nat               -- class of name, unique, type, pk, note, comment
  attached : Bool := false
  deriving Repr, DecidableEq, Inhabited

structure St where
  C : List CObj := []
  I : List IObj := []
  cols : List Nat := []
  idxs : List Nat := []
  deriving Repr, DecidableEq, Inhabited

inductive Op where
  | addColumn (i : Nat)                       -- `t.add_column(c)` for a column that is in no table
  | deleteColumnPos (k : Nat)                 -- `t.delete_column(k)`
  | deleteColumnObj (i : Nat)                 -- `t.delete_column(c)`
  | newIndex (subjects : List Subj) (cls : Nat)   -- `t.add_index(Index(subjects, …))` with a new index object
  | deleteIndexPos (k : Nat)
  | deleteIndexObj (i : Nat)
  deriving Repr, DecidableEq, Inhabited

inductive Outcome where
  | ok
  | notFound      -- ColumnNotFoundError / IndexNotFoundError, table unchanged
  | badOp         -- outside the modelled use (unknown object, position out of range, column already in a table)
  deriving Repr, DecidableEq, Inhabited

/-- `Column.__eq__` between universe objects: the full names of their tables (or both in no table), then everything
    but `table` -/
def cEq (s : St) (i j : Nat) : Bool :=
  match s.C[i]?, s.C[j]? with
  | some a, some b => a.owner == b.owner && a.cls == b.cls
  | _, _ => false

/-- position of the first member that *is* or *equals* column `i` (`list.index`) -/
def colIndex (s : St) (i : Nat) : Option Nat := s.cols.findIdx? fun j => j == i || cEq s i j

def subjEq (s : St) : Subj → Subj → Bool
  | .col i, .col j => i == j || cEq s i j
  | .expr a, .expr b => a == b
  | _, _ => false

def subjsEq (s : St) : List Subj → List Subj → Bool
  | [], [] => true
  | a :: as, b :: bs => subjEq s a b && subjsEq s as bs
  | _, _ => false

/-- `Index.__eq__` between index objects -/
def iEq (s : St) (i j : Nat) : Bool :=
  match s.I[i]?, s.I[j]? with
  | some a, some b => a.cls == b.cls && subjsEq s a.subjects b.subjects
  | _, _ => false

def idxIndex (s : St) (i : Nat) : Option Nat := s.idxs.findIdx? fun j => j == i || iEq s i j

/-- every column subject is a column of this table (`subject.table is self`) -/
def subjectsOwn (s : St) (subs : List Subj) : Bool :=
  subs.all fun x => match x with
    | .col i => (match s.C[i]? with | some c => c.owner == .this | none => false)
    | .expr _ => true

def setOwner (s : St) (i : Nat) (o : Owner) : St := { s with C := s.C.modify i fun c => { c with owner := o } }
def setAttached (s : St) (i : Nat) (b : Bool) : St := { s with I := s.I.modify i fun x => { x with attached := b } }

def step (s : St) : Op → St × Outcome
  | .addColumn i =>
    match s.C[i]? with
    | none => (s, .badOp)
    | some c =>
      if c.owner != .none then (s, .badOp)
      else ({ setOwner s i .this with cols := s.cols ++ [i] }, .ok)
  | .deleteColumnPos k =>
    match s.cols[k]? with
    | none => (s, .badOp)
    | some m => ({ setOwner s m .none with cols := s.cols.eraseIdx k }, .ok)
  | .deleteColumnObj i =>
    if i ≥ s.C.length then (s, .badOp)
    else match colIndex s i with
      | none => (s, .notFound)
      | some k =>
        match s.cols[k]? with
        | some m => ({ setOwner s m .none with cols := s.cols.eraseIdx k }, .ok)
        | none => (s, .badOp)
  | .newIndex subs cls =>
    let n := s.I.length
    let s1 := { s with I := s.I ++ [{ subjects := subs, cls := cls }] }
    if subjectsOwn s subs then ({ setAttached s1 n true with idxs := s.idxs ++ [n] }, .ok)
    else (s1, .notFound)
  | .deleteIndexPos k =>
    match s.idxs[k]? with
    | none => (s, .badOp)
    | some m => ({ setAttached s m false with idxs := s.idxs.eraseIdx k }, .ok)
  | .deleteIndexObj i =>
    if i ≥ s.I.length then (s, .badOp)
    else match idxIndex s i with
      | none => (s, .notFound)
      | some k =>
        match s.idxs[k]? with
        | some m => ({ setAttached s m false with idxs := s.idxs.eraseIdx k }, .ok)
        | none => (s, .badOp)

def run (s : St) (ops : List Op) : St := ops.foldl (fun s op => (step s op).1) s

/-- `t[name]` / `t.get(name)`: the first column of the class that carries the name -/
def lookup (s : St) (p : Nat → Bool) : Option Nat :=
  s.cols.find? fun i => match s.C[i]? with | some c => p c.cls | none => false

end TCont
end PyDBML
