/-
C13 (lexical layer) — a text written with the DBML renderer's escaping is read back to itself and
cannot end its literal early.
-/
import PyDBMLModel
namespace PyDBML
namespace C13
open Lex

/-! ### `prepare_text_for_dbml`, chunk by chunk -/

theorem prepare_plain (c : Char) (r : Str) (h1 : c ≠ '\'') (h2 : c ≠ '\\') :
    prepareTextForDbml (c :: r) = c :: prepareTextForDbml r := by
  rw [prepareTextForDbml.eq_def]
  split <;> simp_all

theorem prepare_backslash (r : Str) :
    prepareTextForDbml ('\\' :: r) = '\\' :: '\\' :: prepareTextForDbml r := by
  simp [prepareTextForDbml]

theorem prepare_triple (r : Str) :
    prepareTextForDbml ('\'' :: '\'' :: '\'' :: r) = '\\' :: '\'' :: '\'' :: '\'' :: prepareTextForDbml r := by
  simp [prepareTextForDbml]

theorem prepare_quote (r : Str) (hr : ∀ r', r ≠ '\'' :: '\'' :: r') :
    prepareTextForDbml ('\'' :: r) = '\\' :: '\'' :: prepareTextForDbml r := by
  rw [prepareTextForDbml.eq_def]
  split
  · rename_i h; simp at h; exact (hr _ h).elim
  · rename_i h; simp at h; subst h; rfl
  · rename_i h; simp at h
  · rename_i h1 h2 h; simp at h; exact absurd h.1.symm h1
  · rename_i h; simp at h

/-! ### the unquote scan on what the renderer emits -/

theorem unquote_plain (e d : Bool) (c : Char) (r : Str) (hc : c ≠ '\\') :
    unquoteAux e d 0 (c :: r) = c :: unquoteAux e d 0 r := by
  have : unquoteStep e d (c :: r) = ([c], 1) := by
    rw [unquoteStep.eq_def]
    split <;> simp_all
  simp [unquoteAux, this]

theorem unquote_esc_quote (d : Bool) (r : Str) :
    unquoteAux true d 0 ('\\' :: '\'' :: r) = '\'' :: unquoteAux true d 0 r := by
  have : unquoteStep true d ('\\' :: '\'' :: r) = (['\''], 2) := by
    simp [unquoteStep]
  simp [unquoteAux, this]

theorem unquote_esc_bs (d : Bool) (r : Str) :
    unquoteAux true d 0 ('\\' :: '\\' :: r) = '\\' :: unquoteAux true d 0 r := by
  have : unquoteStep true d ('\\' :: '\\' :: r) = (['\\'], 2) := by
    simp [unquoteStep]
  simp [unquoteAux, this]

/-- Reading back what the renderer's escaping wrote gives the text itself — for every text, in a
    one-line (`d = false`) as in a multi-line (`d = true`) literal. -/
theorem unquote_prepare (d : Bool) (t : Str) : unquote true d (prepareTextForDbml t) = t := by
  unfold unquote
  fun_induction prepareTextForDbml t with
  | case1 r ih =>
    rw [unquote_esc_quote, unquote_plain _ _ '\'' _ (by decide), unquote_plain _ _ '\'' _ (by decide), ih]
  | case2 r hr ih =>
    rw [unquote_esc_quote, ih]
  | case3 r ih =>
    rw [unquote_esc_bs, ih]
  | case4 c r h1 h2 h3 ih =>
    rw [unquote_plain _ _ c _ (by intro e; subst e; simp at h3), ih]
  | case5 => rfl

/-! ### the literal cannot be ended early: one-line `'…'` -/

def oneLine (t : Str) : Bool := !t.any fun c => c = '\n' || c = '\r'

theorem scanQ1_esc (q d : Char) (r : Str) (hd : d ≠ '\n') :
    scanQ1 q ('\\' :: d :: r) = (scanQ1 q r).map (fun p => ('\\' :: d :: p.1, p.2)) := by
  rw [scanQ1.eq_def]
  simp only [hd, ↓reduceIte]
  cases scanQ1 q r <;> rfl

theorem scanQ1_close (q : Char) (r : Str) (hq : q ≠ '\\') : scanQ1 q (q :: r) = some ([], r) := by
  rw [scanQ1.eq_def]
  split
  · rename_i h; simp at h; exact absurd h.1 hq
  · rename_i h; simp at h; obtain ⟨rfl, rfl⟩ := h; simp
  · rename_i h; simp at h

theorem scanQ1_plain (q c : Char) (r : Str) (h1 : c ≠ q) (h2 : c ≠ '\n') (h3 : c ≠ '\r') (h4 : c ≠ '\\') :
    scanQ1 q (c :: r) = (scanQ1 q r).map (fun p => (c :: p.1, p.2)) := by
  rw [scanQ1.eq_def]
  split
  · rename_i h; simp at h; exact absurd h.1 h4
  · rename_i h; simp at h; obtain ⟨rfl, rfl⟩ := h
    simp only [h1, ↓reduceIte, h2, h3, h4, Bool.or_self, Bool.false_eq_true, decide_false]
    cases scanQ1 q r <;> rfl
  · rename_i h; simp at h

theorem hasTriple_cons (c : Char) (r : Str) (h : hasTriple (c :: r) = false) : hasTriple r = false := by
  rw [hasTriple.eq_def] at h
  split at h
  · simp at h
  · rename_i h'; simp at h'; obtain ⟨_, rfl⟩ := h'; exact h
  · rename_i h'; simp at h'

/-- A one-line text without `'''` written as `'` + escaped text + `'` is scanned exactly up to its
    closing quote: whatever the text contains — quotes, backslashes, brackets, comment markers —
    it cannot end the literal early nor swallow what follows. -/
theorem scanQ1_prepare (t rest : Str) (h1 : oneLine t = true) (h3 : hasTriple t = false) :
    scanQ1 '\'' (prepareTextForDbml t ++ '\'' :: rest) = some (prepareTextForDbml t, rest) := by
  fun_induction prepareTextForDbml t with
  | case1 r ih => simp [hasTriple] at h3
  | case2 r hr ih =>
    have h1' : oneLine r = true := by simpa [oneLine] using h1
    simp only [List.cons_append]
    rw [scanQ1_esc _ _ _ (by decide), ih h1' (hasTriple_cons _ _ h3)]
    rfl
  | case3 r ih =>
    have h1' : oneLine r = true := by simpa [oneLine] using h1
    simp only [List.cons_append]
    rw [scanQ1_esc _ _ _ (by decide), ih h1' (hasTriple_cons _ _ h3)]
    rfl
  | case4 c r hc1 hc2 hc3 ih =>
    have hq : c ≠ '\'' := by intro e; subst e; simp at hc2
    have hb : c ≠ '\\' := by intro e; subst e; simp at hc3
    have hn : c ≠ '\n' ∧ c ≠ '\r' := by
      simp [oneLine] at h1
      exact ⟨h1.1.1, h1.1.2⟩
    have h1' : oneLine r = true := by
      simp [oneLine] at h1 ⊢
      exact h1.2
    simp only [List.cons_append]
    rw [scanQ1_plain _ _ _ hq hn.1 hn.2 hb, ih h1' (hasTriple_cons _ _ h3)]
    rfl
  | case5 => simpa using scanQ1_close '\'' rest (by decide)

/-! ### multi-line `'''…'''` -/

theorem scanQ3_esc (d : Char) (r : Str) :
    scanQ3 ('\\' :: d :: r) = (scanQ3 r).map (fun p => ('\\' :: d :: p.1, p.2)) := by
  rw [scanQ3.eq_def]
  split
  · rename_i h; simp at h; obtain ⟨rfl, rfl⟩ := h; cases scanQ3 r <;> rfl
  · rename_i h; simp at h
  · rename_i h; simp at h
  · rename_i h; simp at h
  · rename_i h; simp at h
  · rename_i h; obtain ⟨rfl, rfl⟩ := h; simp_all
  · rename_i h; simp at h

theorem scanQ3_close (r : Str) : scanQ3 ('\'' :: '\'' :: '\'' :: r) = some ([], r) := by
  rw [scanQ3.eq_def]
  split
  · rename_i h; simp at h
  · rename_i h; simp at h; subst h; rfl
  · rename_i h1 h; simp at h; subst h; exact absurd rfl (h1 _)
  · rename_i h1 h2 h; simp at h; subst h; exact absurd rfl (h1 _)
  · rename_i h; simp at h
  · rename_i h1 h2 h3 h4 h; simp at h; exact absurd h.1.symm h3
  · rename_i h; simp at h

theorem scanQ3_plain (c : Char) (r : Str) (h1 : c ≠ '\'') (h2 : c ≠ '\\') :
    scanQ3 (c :: r) = (scanQ3 r).map (fun p => (c :: p.1, p.2)) := by
  rw [scanQ3.eq_def]
  split
  · rename_i h; simp at h; exact absurd h.1 h2
  · rename_i h; simp at h; exact absurd h.1 h1
  · rename_i h; simp at h; exact absurd h.1 h1
  · rename_i h; simp at h; exact absurd h.1 h1
  · rename_i h; simp at h; exact absurd h.1 h2
  · rename_i h; simp at h; obtain ⟨rfl, rfl⟩ := h; cases scanQ3 r <;> rfl
  · rename_i h; simp at h

/-- two unescaped quotes followed by something that is not a quote are part of the body -/
theorem scanQ3_two (x : Char) (r : Str) (hx : x ≠ '\'') :
    scanQ3 ('\'' :: '\'' :: x :: r) = (scanQ3 (x :: r)).map (fun p => ('\'' :: '\'' :: p.1, p.2)) := by
  rw [scanQ3.eq_def]
  split
  · rename_i h; simp at h
  · rename_i h; simp at h; exact absurd h.1 hx
  · rename_i h; simp at h; obtain ⟨rfl⟩ := h; cases scanQ3 (x :: r) <;> rfl
  · rename_i h1 h; simp at h; subst h; exact absurd rfl (h1 _)
  · rename_i h; simp at h
  · rename_i h1 h2 h; simp at h; exact absurd h.1.symm h1
  · rename_i h; simp at h

theorem prepare_head (t : Str) (ht : t ≠ []) : ∃ c r, prepareTextForDbml t = c :: r ∧ c ≠ '\'' := by
  fun_induction prepareTextForDbml t with
  | case1 r ih => exact ⟨_, _, rfl, by decide⟩
  | case2 r hr ih => exact ⟨_, _, rfl, by decide⟩
  | case3 r ih => exact ⟨_, _, rfl, by decide⟩
  | case4 c r h1 h2 h3 ih => exact ⟨c, _, rfl, by intro e; subst e; simp at h2⟩
  | case5 => exact absurd rfl ht

/-- A text written as `'''` + escaped text + `'''` is scanned exactly up to its closing quotes,
    unless it ends with a `'''` chunk (the named exclusion `TripleQuote`). -/
theorem scanQ3_prepare (t rest : Str) (h : endsTriple t = false) :
    scanQ3 (prepareTextForDbml t ++ '\'' :: '\'' :: '\'' :: rest) = some (prepareTextForDbml t, rest) := by
  fun_induction prepareTextForDbml t with
  | case1 r ih =>
    have hr : r ≠ [] := by intro e; subst e; simp [endsTriple] at h
    have h' : endsTriple r = false := by
      cases r with
      | nil => exact absurd rfl hr
      | cons a as => simpa [endsTriple] using h
    obtain ⟨c, r', hp, hc⟩ := prepare_head r hr
    simp only [List.cons_append]
    rw [scanQ3_esc]
    have := ih h'
    rw [hp] at this ⊢
    simp only [List.cons_append] at this ⊢
    rw [scanQ3_two c _ hc, this]
    rfl
  | case2 r hr ih =>
    have h' : endsTriple r = false := by
      rw [endsTriple.eq_def] at h
      split at h
      · rename_i h0; simp at h0; exact absurd h0 (hr _)
      · rename_i h0; simp at h0; exact absurd h0 (hr _)
      · rename_i h0; simp at h0; obtain ⟨_, rfl⟩ := h0; exact h
      · rename_i h0; simp at h0
    simp only [List.cons_append]
    rw [scanQ3_esc, ih h']
    rfl
  | case3 r ih =>
    have h' : endsTriple r = false := by
      rw [endsTriple.eq_def] at h
      split at h
      · rename_i h0; simp at h0
      · rename_i h0; simp at h0
      · rename_i h0; simp at h0; obtain ⟨_, rfl⟩ := h0; exact h
      · rename_i h0; simp at h0
    simp only [List.cons_append]
    rw [scanQ3_esc, ih h']
    rfl
  | case4 c r hc1 hc2 hc3 ih =>
    have hq : c ≠ '\'' := by intro e; subst e; simp at hc2
    have hb : c ≠ '\\' := by intro e; subst e; simp at hc3
    have h' : endsTriple r = false := by
      rw [endsTriple.eq_def] at h
      split at h
      · rename_i h0; simp at h0; exact absurd h0.1 hq
      · rename_i h0; simp at h0; exact absurd h0.1 hq
      · rename_i h0; simp at h0; obtain ⟨_, rfl⟩ := h0; exact h
      · rename_i h0; simp at h0
    simp only [List.cons_append]
    rw [scanQ3_plain c _ hq hb, ih h']
    rfl
  | case5 => simpa using scanQ3_close rest

/-! ### the grammar's `string_literal` on what the renderer writes -/

theorem advance_rest (c : Cur) (n : Nat) : (advance c n).rest = c.rest.drop n := by
  induction n generalizing c with
  | zero => rfl
  | succ n ih =>
    unfold advance
    cases h : c.rest with
    | nil => simp [h]
    | cons x r => simp [ih]

theorem advance_pastEnd (c : Cur) (n : Nat) : (advance c n).pastEnd = c.pastEnd := by
  induction n generalizing c with
  | zero => rfl
  | succ n ih =>
    unfold advance
    cases h : c.rest with
    | nil => rfl
    | cons x r => simp [ih]

theorem curAfter_rest (c : Cur) (pre rest : Str) (h : c.rest = pre ++ rest) : (curAfter c rest).rest = rest := by
  unfold curAfter
  rw [advance_rest, h]
  simp

theorem skipWs_quote (c : Cur) (r : Str) (h : c.rest = '\'' :: r) : skipWs c = c := by
  cases c with
  | mk p r' pe =>
    simp only at h
    subst h
    simp [skipWs, skipWsList, isWs]

/-- `string_literal` reads a one-line text written as `'` + escaped text + `'` back to the text and
    stops right after the closing quote. -/
theorem stringLiteral_reads_one_line (t rest : Str) (prev : Option Char)
    (h1 : oneLine t = true) (h3 : hasTriple t = false)
    (hr : t ≠ [] ∨ rest.head? ≠ some '\'') :
    ∃ c', stringLiteral { prev := prev, rest := '\'' :: (prepareTextForDbml t ++ '\'' :: rest) } = .ok t c'
        ∧ c'.rest = rest ∧ c'.pastEnd = false := by
  let c : Cur := { prev := prev, rest := '\'' :: (prepareTextForDbml t ++ '\'' :: rest) }
  have hsk : skipWs c = c := skipWs_quote c _ rfl
  have hscan := scanQ1_prepare t rest h1 h3
  have hno3 : ∀ r3, prepareTextForDbml t ++ '\'' :: rest ≠ '\'' :: '\'' :: r3 := by
    intro r3 e
    by_cases ht : t = []
    · subst ht
      simp [prepareTextForDbml] at e
      rcases hr with hr | hr
      · exact hr rfl
      · rw [e] at hr; simp at hr
    · obtain ⟨x, r', hp, hx⟩ := prepare_head t ht
      rw [hp] at e
      simp at e
      exact hx e.1
  refine ⟨curAfter c rest, ?_, ?_, ?_⟩
  · show stringLiteral c = _
    unfold stringLiteral
    rw [hsk]
    show (if c.pastEnd = true then _ else _) = _
    simp only [c, Bool.false_eq_true, ↓reduceIte, hscan, Option.map_some]
    rw [unquote_prepare]
  · exact curAfter_rest c ('\'' :: prepareTextForDbml t ++ ['\'']) rest (by simp [c])
  · unfold curAfter; rw [advance_pastEnd]

/-- `string_literal` reads a text written as `'''` + escaped text + `'''` (single- or multi-line)
    back to the text and stops right after the closing quotes, unless the text ends with a
    `'''` chunk (`TripleQuote`). -/
theorem stringLiteral_reads_triple (t rest : Str) (prev : Option Char) (h : endsTriple t = false) :
    ∃ c', stringLiteral { prev := prev, rest := '\'' :: '\'' :: '\'' :: (prepareTextForDbml t ++ '\'' :: '\'' :: '\'' :: rest) }
            = .ok t c'
        ∧ c'.rest = rest ∧ c'.pastEnd = false := by
  let c : Cur := { prev := prev, rest := '\'' :: '\'' :: '\'' :: (prepareTextForDbml t ++ '\'' :: '\'' :: '\'' :: rest) }
  have hsk : skipWs c = c := skipWs_quote c _ rfl
  have hscan := scanQ3_prepare t rest h
  have h1 : scanQ1 '\'' ('\'' :: '\'' :: (prepareTextForDbml t ++ '\'' :: '\'' :: '\'' :: rest))
      = some ([], '\'' :: (prepareTextForDbml t ++ '\'' :: '\'' :: '\'' :: rest)) := scanQ1_close '\'' _ (by decide)
  refine ⟨curAfter c rest, ?_, ?_, ?_⟩
  · show stringLiteral c = _
    unfold stringLiteral
    rw [hsk]
    show (if c.pastEnd = true then _ else _) = _
    simp only [c, Bool.false_eq_true, ↓reduceIte, h1, hscan, Option.map_some]
    have hlt : rest.length < ('\'' :: (prepareTextForDbml t ++ '\'' :: '\'' :: '\'' :: rest)).length := by
      simp; omega
    simp only [hlt, ↓reduceIte]
    rw [unquote_prepare]
  · exact curAfter_rest c ('\'' :: '\'' :: '\'' :: prepareTextForDbml t ++ ['\'', '\'', '\'']) rest (by simp [c])
  · unfold curAfter; rw [advance_pastEnd]

end C13
end PyDBML
