"""An independent tokenising reader for the SQL DDL dialect PyDBML emits (the model-free oracle of
C03 / C04 / C18).  Written from the SQL grammar, not from the renderer: it tokenises the whole
script, splits it into statements at top-level `;` and parses each statement kind.

Readable scripts: identifiers without `"`, string literals without a bare `'`.  Column types and
DEFAULT values are returned as the source text between their delimiters.
"""
import re


class DDLError(Exception):
    pass


TOK = re.compile(r'''
    (?P<ws>[ \t\r\n]+)
  | (?P<comment>--[^\n]*)
  | (?P<qid>"[^"]*")
  | (?P<str>'[^']*')
  | (?P<punct>[(),;.])
  | (?P<word>[^\s(),;."']+)
''', re.X)


def tokenize(sql):
    pos = 0
    out = []
    while pos < len(sql):
        m = TOK.match(sql, pos)
        if not m:
            raise DDLError(f'cannot tokenise at {pos}: {sql[pos:pos + 30]!r}')
        kind = m.lastgroup
        if kind != 'ws':
            out.append((kind, m.group(0), m.start(), m.end()))
        pos = m.end()
    return out


def split_statements(toks):
    """Split at top-level `;`. Comments directly before a statement stay with it."""
    stmts, cur, depth = [], [], 0
    for t in toks:
        if t[0] == 'punct' and t[1] == '(':
            depth += 1
        elif t[0] == 'punct' and t[1] == ')':
            depth -= 1
            if depth < 0:
                raise DDLError('unbalanced )')
        if t[0] == 'punct' and t[1] == ';' and depth == 0:
            stmts.append(cur)
            cur = []
        else:
            cur.append(t)
    if depth != 0:
        raise DDLError('unbalanced (')
    if any(t[0] != 'comment' for t in cur):
        raise DDLError('trailing tokens without ;: ' + ' '.join(t[1] for t in cur[:8]))
    return stmts


class P:
    def __init__(self, toks, sql):
        self.t = [t for t in toks if t[0] != 'comment']
        self.comments = [t[1] for t in toks if t[0] == 'comment']
        self.i = 0
        self.sql = sql

    def peek(self, k=0):
        return self.t[self.i + k] if self.i + k < len(self.t) else ('eof', '', -1, -1)

    def next(self):
        t = self.peek()
        self.i += 1
        return t

    def word(self, *ws):
        """consume the given keywords (case-sensitive upper) in sequence"""
        for w in ws:
            t = self.next()
            if t[0] != 'word' or t[1] != w:
                raise DDLError(f'expected {w}, got {t[1]!r}')

    def at_words(self, *ws):
        for k, w in enumerate(ws):
            t = self.peek(k)
            if t[0] != 'word' or t[1] != w:
                return False
        return True

    def punct(self, p):
        t = self.next()
        if t[0] != 'punct' or t[1] != p:
            raise DDLError(f'expected {p!r}, got {t[1]!r}')

    def at_punct(self, p):
        t = self.peek()
        return t[0] == 'punct' and t[1] == p

    def qid(self):
        t = self.next()
        if t[0] != 'qid':
            raise DDLError(f'expected quoted identifier, got {t[1]!r}')
        return t[1][1:-1]

    def qualified(self):
        """"a" or "s"."a" -> (schema or None, name)"""
        a = self.qid()
        if self.at_punct('.'):
            self.next()
            return (a, self.qid())
        return (None, a)

    def id_list(self):
        self.punct('(')
        out = [self.qid()]
        while self.at_punct(','):
            self.next()
            out.append(self.qid())
        self.punct(')')
        return out

    def raw_until(self, stop):
        """Source text of the tokens up to (not including) the first token at paren depth 0 for which
        stop(tok) holds (or the end)."""
        depth = 0
        start = self.peek()[2]
        end = start
        while self.i < len(self.t):
            t = self.peek()
            if depth == 0 and stop(t):
                break
            if t[0] == 'punct' and t[1] == '(':
                depth += 1
            elif t[0] == 'punct' and t[1] == ')':
                if depth == 0:
                    break
                depth -= 1
            end = t[3]
            self.i += 1
        return self.sql[start:end] if start >= 0 else ''

    def done(self):
        return self.i >= len(self.t)


COL_KW = {'PRIMARY', 'AUTOINCREMENT', 'UNIQUE', 'NOT', 'DEFAULT'}


def parse_fk_tail(p):
    """FOREIGN KEY (cols) REFERENCES tbl (cols) [ON UPDATE x] [ON DELETE y]"""
    p.word('FOREIGN', 'KEY')
    src = p.id_list()
    p.word('REFERENCES')
    tgt = p.qualified()
    tcols = p.id_list()
    upd = dele = None
    while p.at_words('ON'):
        p.next()
        which = p.next()[1]
        act = []
        while p.peek()[0] == 'word' and p.peek()[1] not in ('ON',):
            act.append(p.next()[1])
        if which == 'UPDATE':
            upd = ' '.join(act)
        elif which == 'DELETE':
            dele = ' '.join(act)
        else:
            raise DDLError(f'ON {which}?')
    return {'cols': src, 'ref_table': tgt, 'ref_cols': tcols, 'on_update': upd, 'on_delete': dele}


def parse_create_table(p):
    name = p.qualified()
    p.punct('(')
    cols, pk_clauses, fks = [], [], []
    while True:
        if not cols and not pk_clauses and not fks and p.at_punct(')'):
            p.punct(')')       # a table without columns: `CREATE TABLE "t" ( );`
            break
        if p.at_words('PRIMARY', 'KEY'):
            p.next(); p.next()
            p.punct('(')
            subj = p.raw_until(lambda t: False)
            p.punct(')')
            pk_clauses.append(subj)
        elif p.at_words('CONSTRAINT') or p.at_words('FOREIGN'):
            cname = None
            if p.at_words('CONSTRAINT'):
                p.next()
                cname = p.qid()
            fk = parse_fk_tail(p)
            fk['name'] = cname
            fks.append(fk)
        else:
            cname = p.qid()
            typ = p.raw_until(lambda t: (t[0] == 'word' and t[1] in COL_KW) or (t[0] == 'punct' and t[1] == ','))
            col = {'name': cname, 'type': typ, 'pk': False, 'autoinc': False, 'unique': False, 'not_null': False,
                   'default': None}
            while not (p.at_punct(',') or p.at_punct(')')):
                if p.at_words('PRIMARY', 'KEY'):
                    p.next(); p.next(); col['pk'] = True
                elif p.at_words('AUTOINCREMENT'):
                    p.next(); col['autoinc'] = True
                elif p.at_words('UNIQUE'):
                    p.next(); col['unique'] = True
                elif p.at_words('NOT', 'NULL'):
                    p.next(); p.next(); col['not_null'] = True
                elif p.at_words('DEFAULT'):
                    p.next()
                    col['default'] = p.raw_until(lambda t: t[0] == 'punct' and t[1] == ',')
                else:
                    raise DDLError(f'unexpected {p.peek()[1]!r} in column {cname}')
            cols.append(col)
        if p.at_punct(','):
            p.next()
            continue
        p.punct(')')
        break
    if not p.done():
        raise DDLError('tokens after CREATE TABLE body')
    return {'kind': 'table', 'name': name, 'columns': cols, 'pk_clauses': pk_clauses, 'fks': fks}


def parse_statement(toks, sql):
    p = P(toks, sql)
    comments = p.comments
    if p.done():
        raise DDLError('empty statement')
    if p.at_words('CREATE', 'TYPE'):
        p.next(); p.next()
        name = p.qualified()
        p.word('AS', 'ENUM')
        p.punct('(')
        items = []
        while not p.at_punct(')'):
            t = p.next()
            if t[0] != 'str':
                raise DDLError(f'enum item expected, got {t[1]!r}')
            items.append(t[1][1:-1])
            if p.at_punct(','):
                p.next()
                if p.at_punct(')'):
                    # a comma announces another label: `'a', )` declares an empty extra label (no SQL dialect takes it)
                    raise DDLError('comma before the closing parenthesis of an enum item list')
            elif not p.at_punct(')'):
                raise DDLError(f'comma or ) expected after an enum item, got {p.peek()[1]!r}')
        p.punct(')')
        st = {'kind': 'type', 'name': name, 'items': items}
    elif p.at_words('CREATE', 'TABLE'):
        p.next(); p.next()
        st = parse_create_table(p)
    elif p.at_words('CREATE', 'INDEX') or p.at_words('CREATE', 'UNIQUE', 'INDEX'):
        p.next()
        unique = False
        if p.at_words('UNIQUE'):
            unique = True
            p.next()
        p.word('INDEX')
        iname = None
        if p.peek()[0] == 'qid':
            iname = p.qid()
        p.word('ON')
        tbl = p.qualified()
        using = None
        if p.at_words('USING'):
            p.next()
            using = p.next()[1]
        p.punct('(')
        subj = p.raw_until(lambda t: False)
        p.punct(')')
        st = {'kind': 'index', 'name': iname, 'unique': unique, 'table': tbl, 'using': using, 'subjects': subj}
    elif p.at_words('COMMENT', 'ON'):
        p.next(); p.next()
        ent = p.next()[1]
        target = [p.qid()]
        while p.at_punct('.'):
            p.next()
            target.append(p.qid())
        p.word('IS')
        t = p.next()
        if t[0] != 'str':
            raise DDLError('COMMENT literal expected')
        st = {'kind': 'comment', 'entity': ent, 'target': target, 'text': t[1][1:-1]}
    elif p.at_words('ALTER', 'TABLE'):
        p.next(); p.next()
        tbl = p.qualified()
        p.word('ADD')
        cname = None
        if p.at_words('CONSTRAINT'):
            p.next()
            cname = p.qid()
        fk = parse_fk_tail(p)
        fk['name'] = cname
        st = {'kind': 'alter_fk', 'table': tbl, **fk}
    else:
        raise DDLError(f'unknown statement starting with {p.peek()[1]!r}')
    if not p.done():
        raise DDLError(f'trailing tokens in statement: {p.peek()[1]!r}')
    st['comments'] = comments
    return st


def read(sql):
    toks = tokenize(sql)
    return [parse_statement(s, sql) for s in split_statements(toks)]
