#!/usr/bin/env python3
"""Copy confirmed seeded changes from /tmp/out_<id>/m<i>/ into /verif/seeded/<id>-m<i>/ with the record of what was run."""
import json, os, shutil, subprocess, sys
caught = json.loads(sys.argv[1]) if len(sys.argv) > 1 else {}
for pid in sorted(os.listdir('/tmp')):
    if not pid.startswith('out_C'):
        continue
    base = '/tmp/' + pid
    for m in sorted(os.listdir(base)):
        d = os.path.join(base, m)
        if not (os.path.isdir(d) and os.path.exists(os.path.join(d, 'patch.diff'))):
            continue
        key = pid[4:] + '-' + m
        dst = os.path.join('/verif/seeded', key)
        os.makedirs(dst, exist_ok=True)
        for f in ('patch.diff', 'demo.py'):
            if os.path.exists(os.path.join(d, f)):
                shutil.copy(os.path.join(d, f), os.path.join(dst, f))
        meta = {}
        try:
            meta = json.load(open(os.path.join(d, 'meta.json')))
        except Exception:
            pass
        meta['property'] = pid[4:]
        meta['confirmed'] = 'applied to /repo with git apply: unedited suite 470 passed; demo exits 1 with the patch and 0 on the clean tree (tools/try_mutant.sh); reverted with git checkout'
        if key in caught:
            meta['caught_by'] = caught[key]
        json.dump(meta, open(os.path.join(dst, 'meta.json'), 'w'), indent=1)
        print(key, meta.get('caught_by'))
