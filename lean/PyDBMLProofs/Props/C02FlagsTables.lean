/-
C02/C15 — whole documents of tables whose columns carry settings, a note and properties: the instance of
`form_tables_roundtrip` (C02FormTables.lean) for `flagForm` (C02Flags.lean).
-/
import PyDBMLProofs.Props.C02Flags
import PyDBMLProofs.Props.C02FormTables
import PyDBMLProofs.Props.C02FormRefs
namespace PyDBML
namespace C02
open Lex Grammar Build

/-- the table of the content model that a name and a list of described columns stand for -/
def flagTable (t : Str × List FCol) : Table := { name := t.1, columns := t.2.map FCol.col }

/-- **C02 (and the round-trip clause of C15) for documents of tables with column settings, end to end**: a database
    holding any positive number of tables with pairwise different names (schema public), each with any positive number
    of columns carrying ANY SUBSET of `pk`, `increment`, `unique`, `not null`, possibly a one-line note and - with the
    properties switch on - any number of arbitrary properties, is rendered to DBML and parsed back to exactly the same
    database: same tables, same columns, same settings, same notes, same properties, all in the same order. -/
theorem flags_tables_roundtrip_partial (ap : Bool) (ts : List (Str × List FCol))
    (hok : ∀ t ∈ ts, NameOK t.1 ∧ (∀ s ∈ t.2, s.ok ap) ∧ t.2 ≠ []) (hne : ts ≠ [])
    (hd : ts.Pairwise (fun a b => a.1 ≠ b.1)) :
    ∃ text, Dbml.renderDb { tables := ts.map flagTable, allowProps := ap } = .ok text
      ∧ Build.parse ap text = .ok { tables := ts.map flagTable, allowProps := ap } :=
  form_tables_roundtrip flagForm ap ts hok hne hd

/-- the rendered text of two such tables (a test of the statement on one literal) -/
example : flagForm.docText [(lit "a", [{ name := lit "id", type := lit "int", pk := true }]),
      (lit "b", [{ name := lit "n", type := lit "text", note := lit "x" }, { name := lit "m", type := lit "int" }])]
    = lit "Table \"a\" {\n    \"id\" int [pk]\n}\n\nTable \"b\" {\n    \"n\" text [note: 'x']\n    \"m\" int\n}" := by decide

/-- **C02 / C05 / C15: tables with column settings AND references between their columns, end to end.**  A database
    holding any positive number of tables with pairwise different names, each with any positive number of columns
    carrying any subset of `pk`, `increment`, `unique`, `not null`, possibly a one-line note and (switch on) any number of
    properties, and any positive number of pairwise different standalone single-column references between columns of
    these tables, is rendered to DBML and parsed back to exactly the same database: the references are resolved - by
    table name and column name - to the very positions they were written from.  The hypotheses on names are exactly the
    recorded findings: no dot in a table name, a column name is one comma-free piece that survives `strip('() ')`, no two
    columns of one table with one name. -/
theorem flags_refs_roundtrip_partial (ap : Bool) (ts : List (Str × List FCol)) (rs : List RSpec)
    (hok : ∀ t ∈ ts, NameOK t.1 ∧ (∀ s ∈ t.2, s.ok ap) ∧ t.2 ≠ []) (hts : ts ≠ [])
    (htn : ts.Pairwise (fun a b => a.1 ≠ b.1)) (hnodot : ∀ t ∈ ts, '.' ∉ t.1)
    (hcn : ∀ t ∈ ts, t.2.Pairwise (fun a b => a.name ≠ b.name))
    (hcp : ∀ t ∈ ts, ∀ c ∈ t.2, splitComma c.name = [c.name] ∧ stripParenSpace c.name = c.name)
    (hin : ∀ r ∈ rs, ∃ ta tb, ts[r.t1]? = some ta ∧ ts[r.t2]? = some tb ∧ r.c1 < ta.2.length ∧ r.c2 < tb.2.length)
    (hrs : rs ≠ []) (hnd : rs.Nodup) :
    ∃ text, Dbml.renderDb { tables := ts.map flagTable, refs := rs.map mkRef, allowProps := ap } = .ok text
      ∧ Build.parse ap text = .ok { tables := ts.map flagTable, refs := rs.map mkRef, allowProps := ap } :=
  form_refs_roundtrip flagForm ap ts rs hok (fun t ht s hs => ((hok t ht).2.1 s hs).name) hts
    ⟨htn, hnodot, hcn, hcp⟩ hin hrs hnd

/-- the rendered text of two such tables and a reference (a test of the statement on one literal) -/
example : flagForm.docTextR [(lit "a", [{ name := lit "id", type := lit "int", pk := true }]),
      (lit "b", [{ name := lit "a id", type := lit "int", notNull := true }])]
      [flagForm.rtext [(lit "a", [{ name := lit "id", type := lit "int", pk := true }]),
        (lit "b", [{ name := lit "a id", type := lit "int", notNull := true }])] { kind := .manyToOne, t1 := 1, c1 := 0, t2 := 0, c2 := 0 }]
    = lit "Table \"a\" {\n    \"id\" int [pk]\n}\n\nTable \"b\" {\n    \"a id\" int [not null]\n}\n\nRef {\n    \"b\".\"a id\" > \"a\".\"id\"\n}" := by
  decide

end C02
end PyDBML
