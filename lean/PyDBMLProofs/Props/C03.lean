/-
C03 — SQL DDL states exactly the model (structure theorems about the model's script).
-/
import PyDBMLModel
import PyDBMLProofs.Props.C16
import PyDBMLProofs.Props.C15
namespace PyDBML
namespace C03
open Sql

/-- the script is: one CREATE TYPE per enum in order, then one table block per table position —
    every table exactly once (the positions rendered are a permutation of all positions) —, then
    the non-inline references; nothing else. -/
theorem script_structure (db : Db) (txt : Str) (h : renderDb db = .ok txt) :
    ∃ tables refs,
      (reorderIdx db.tables db.refs).mapM (renderTable db) = .ok tables
      ∧ (reorderIdx db.tables db.refs).Perm (List.range db.tables.length)
      ∧ (db.refs.filter (!·.inline)).mapM (renderRefTop db) = .ok refs
      ∧ txt = joinWith (lit "\n\n") (db.enums.map renderEnum ++ tables ++ refs) := by
  obtain ⟨tables, refs, h1, h2, _, h4⟩ := C16.sql_is_join_of_elements db txt h
  exact ⟨tables, refs, h1, C18.perm db.tables db.refs, h2, h4⟩

/-- a table with several pk columns gets one table-level clause INSTEAD of column-level ones:
    the column-level `PRIMARY KEY` component is present iff the column is pk and the table's pk is
    not composite -/
theorem column_pk_component (c : Column) (cpk : Bool) :
    (if c.pk && !cpk then [lit "PRIMARY KEY"] else ([] : List Str)) = [lit "PRIMARY KEY"] ↔ (c.pk = true ∧ cpk = false) := by
  cases c.pk <;> cases cpk <;> simp

/-- a default is emitted whenever one is set — also 0, false and the empty string -/
theorem default_component (d : DefaultVal) :
    (match (some d : Option DefaultVal) with
      | some d => [lit "DEFAULT " ++ defaultSql d]
      | none => []) = [lit "DEFAULT " ++ defaultSql d] := rfl

example : defaultSql (.int (lit "0")) = lit "0" ∧ defaultSql (.bool false) = lit "False" ∧ defaultSql (.str []) = []
    ∧ defaultSql (.expr (lit "now()")) = lit "(now())" := by decide

end C03
end PyDBML
