/-
C01/C02 — enums and sticky notes as element forms (`EForm`, see C02Doc.lean): the rules of `C02Enum.lean` and
`C02Sticky.lean` again, now after any preceding element and before any following one.
-/
import PyDBMLProofs.Props.C02Doc
namespace PyDBML
namespace C02
open Lex Grammar Build

theorem refRule_fail' (c c0 : Cur) (bs : List Str) (hb : cBefore c = .ok bs c0) (hk : clit "ref" c0 = .fail) :
    refRule c = .fail := by
  unfold refRule refShort refLong alt; simp only [bind, pbind, hb, hk]

theorem enumRule_fail' (c c0 : Cur) (bs : List Str) (hb : cBefore c = .ok bs c0) (hk : clit "enum" c0 = .fail) :
    enumRule c = .fail := by
  unfold enumRule; simp only [bind, pbind, hb, hk]

theorem tableGroupRule_fail' (c c0 : Cur) (bs : List Str) (hb : cBefore c = .ok bs c0)
    (hk : clit "TableGroup" c0 = .fail) : tableGroupRule c = .fail := by
  unfold tableGroupRule; simp only [bind, pbind, hb, hk]

theorem projectRule_fail' (c c0 : Cur) (bs : List Str) (hb : cBefore c = .ok bs c0) (hk : clit "project" c0 = .fail) :
    projectRule c = .fail := by
  unfold projectRule; simp only [bind, pbind, hb, hk]

/-! ### enums -/

theorem enumText_append (en : Str) (ns : List Str) (post : Str) :
    enumText en ns ++ post
      = 'E' :: 'n' :: 'u' :: 'm' :: ' ' :: '"' :: (en ++ '"' :: ' ' :: '{' :: (itemsText ns ++ '\n' :: '}' :: post)) := by
  simp [enumText]

/-- the enum rule on the rendered text, after the blank lines before it and before whatever follows -/
theorem enumRule_okP (c c0 : Cur) (en : Str) (ns : List Str) (post : Str) (Q : Cur → Prop)
    (hb : cBefore c = .ok [] c0) (hc : c0.rest = enumText en ns ++ post) (hp : c0.pastEnd = false)
    (hen : NameOK en) (hns : ∀ n ∈ ns, NameOK n) (hne : ns ≠ [])
    (hend : ∀ c7 : Cur, c7.rest = post → c7.pastEnd = false → ∃ c9, endRule c7 = .ok () c9 ∧ Q c9) :
    ∃ c9, enumRule c = .ok (plainEnumBp en ns) c9 ∧ Q c9 := by
  rw [enumText_append] at hc
  have hN : Next c0 'E' _ := skipWs_rest_head c0 'E' _ (by rw [hc]) (by decide)
  obtain ⟨c1, hk, hr1, hp1⟩ := clit_ok "enum" c0 ['E', 'n', 'u', 'm']
    (' ' :: '"' :: (en ++ '"' :: ' ' :: '{' :: (itemsText ns ++ '\n' :: '}' :: post))) hN (by decide)
    (by simp [startsWithCaseless]; decide) hp
  have hN1 : (skipWs c1).rest = '"' :: (en ++ '"' :: (' ' :: '{' :: (itemsText ns ++ '\n' :: '}' :: post))) :=
    skipWs_rest_spaces c1 1 '"' _ (by rw [hr1]; rfl) (by decide)
  obtain ⟨c2, hnm, hr2, hp2⟩ := enumName_ok c1 en _ '{' _ hN1 rfl (by decide) hen hp1
  have hN2 : Next c2 '{' (itemsText ns ++ '\n' :: '}' :: post) := skipWs_rest_spaces c2 1 '{' _ (by rw [hr2]; rfl) (by decide)
  obtain ⟨q3, q4⟩ := quiet_of_next c2 '{' _ hN2 (by decide) (by decide)
  have hs2 : skipNl c2 = .ok () c2 := skipNl_stay c2 q3 q4
  obtain ⟨c3, hbr, hr3, hp3⟩ := sym_ok "{" '{' rfl c2 _ hN2 hp2
  obtain ⟨n0, nr, rfl⟩ : ∃ n0 nr, ns = n0 :: nr := by
    cases ns with
    | nil => exact absurd rfl hne
    | cons a as => exact ⟨a, as, rfl⟩
  obtain ⟨c4, hit, hr4, hp4⟩ := enumItem_ok c3 n0 nr post (by rw [hr3]; simp [itemsText]) hp3 (hns n0 (by simp))
  have hfuel : nr.length < c4.rest.length + 2 := by
    rw [hr4]; have := itemsText_length nr; simp; omega
  obtain ⟨c5, hm, hr5, hp5⟩ := many_items nr post (fun q hq => hns q (by simp [hq])) (c4.rest.length + 2) c4 hfuel hr4 hp4
  have hmany1 : many1 enumItem c3 = .ok ((n0 :: nr).map plainItem) c5 := by
    unfold many1 manyF fuelOf
    simp only [bind, pbind, hit, hm, pure, ppure, List.map_cons]
  have hN5 : (skipWs c5).rest = '\n' :: '}' :: post := skipWs_rest_head c5 '\n' _ hr5 (by decide)
  obtain ⟨c6, hle, hr6, hp6⟩ := lineEnd_nl c5 ('}' :: post) hN5 hp5
  have hN6 : Next c6 '}' post := skipWs_rest_head c6 '}' _ hr6 (by decide)
  obtain ⟨q5, q6⟩ := quiet_of_next c6 '}' _ hN6 (by decide) (by decide)
  have hs6 : skipNl c6 = .ok () c6 := skipNl_stay c6 q5 q6
  obtain ⟨c7, hcl, hr7, hp7⟩ := sym_ok "}" '}' rfl c6 _ hN6 hp6
  obtain ⟨c9, hend9, hQ⟩ := hend c7 hr7 hp7
  refine ⟨c9, ?_, hQ⟩
  unfold enumRule
  simp only [bind, pbind, hb, hk, cut, hnm, hs2, hbr, hmany1, hle, hs6, hcl, hend9, pure, ppure, plainEnumBp, joinBefore]
  rfl

/-- the sticky-note rule once its keyword - in whatever letter case - has been read -/
theorem stickyNoteRule_from (c c0 c1 : Cur) (nm name t post : Str) (Q : Cur → Prop)
    (hb : cBefore c = .ok [] c0) (hk : clit "note" c0 = .ok () c1)
    (hr1 : c1.rest = ' ' :: (nm ++ ' ' :: '{' :: '\n' :: ' ' :: ' ' :: ' ' :: ' ' ::
      '\'' :: (prepareTextForDbml t ++ '\'' :: '\n' :: '}' :: post))) (hp1 : c1.pastEnd = false)
    (hname : Spells nm name)
    (h1 : C13.oneLine t = true) (h3 : hasTriple t = false)
    (hend : ∀ c7 : Cur, c7.rest = post → c7.pastEnd = false → ∃ c9, endRule c7 = .ok () c9 ∧ Q c9) :
    ∃ c9, stickyNoteRule c = .ok { name := name, text := t } c9 ∧ Q c9 := by
  obtain ⟨_, ⟨n0, nr, hn0e, hn0w, hn0n, hn0s⟩, hspell⟩ := hname
  have hN1 : Next c1 n0 _ := skipWs_rest_spaces c1 1 n0 _ (by rw [hr1, hn0e]; rfl) hn0w
  obtain ⟨q3, q4⟩ := quiet_of_next c1 n0 _ hN1 hn0n hn0s
  have hs1 : skipNl c1 = .ok () c1 := skipNl_stay c1 q3 q4
  obtain ⟨c2, hnm, hr2, hp2⟩ := hspell c1 _ (by rw [hn0e]; exact hN1) hp1
  have hN2 : Next c2 '{' _ := skipWs_rest_spaces c2 1 '{' _ (by rw [hr2]; rfl) (by decide)
  obtain ⟨q5, q6⟩ := quiet_of_next c2 '{' _ hN2 (by decide) (by decide)
  have hs2 : skipNl c2 = .ok () c2 := skipNl_stay c2 q5 q6
  obtain ⟨c3, hbr, hr3, hp3⟩ := sym_ok "{" '{' rfl c2 _ hN2 hp2
  have hN3 : Next c3 '\n' _ := skipWs_rest_head c3 '\n' _ hr3 (by decide)
  obtain ⟨c4, hs3, hr4, hp4⟩ := skipNl_one c3 _ hN3 hp3 (by
    intro d hd _
    have : Next d '\'' (prepareTextForDbml t ++ '\'' :: '\n' :: '}' :: post) :=
      skipWs_rest_spaces d 4 '\'' _ (by rw [hd]; rfl) (by decide)
    exact quiet_of_next d '\'' _ this (by decide) (by decide))
  have hN4 : (skipWs c4).rest = '\'' :: (prepareTextForDbml t ++ '\'' :: '\n' :: '}' :: post) :=
    skipWs_rest_spaces c4 4 '\'' _ (by rw [hr4]; rfl) (by decide)
  obtain ⟨c5, hstr, hr5, hp5⟩ := stringLiteral_ok c4 t ('\n' :: '}' :: post) hN4 hp4 h1 h3 (Or.inr (by simp))
  have hN5 : Next c5 '\n' ('}' :: post) := skipWs_rest_head c5 '\n' _ hr5 (by decide)
  obtain ⟨c6, hs5, hr6, hp6⟩ := skipNl_one c5 ('}' :: post) hN5 hp5 (by
    intro d hd _
    have : Next d '}' post := skipWs_rest_head d '}' _ hd (by decide)
    exact quiet_of_next d '}' _ this (by decide) (by decide))
  have hN6 : Next c6 '}' post := skipWs_rest_head c6 '}' _ hr6 (by decide)
  obtain ⟨c7, hcl, hr7, hp7⟩ := sym_ok "}" '}' rfl c6 _ hN6 hp6
  obtain ⟨c9, hend9, hQ⟩ := hend c7 hr7 hp7
  refine ⟨c9, ?_, hQ⟩
  unfold stickyNoteRule
  simp only [bind, pbind, hb, hk, hs1, hnm, hs2, cut, hbr, hs3, hstr, hs5, hcl, hend9, pure, ppure]

/-- an enum: a quoted name and its items -/
abbrev ESpec := Str × List Str

def ESpecOK (e : ESpec) : Prop := NameOK e.1 ∧ (∀ n ∈ e.2, NameOK n) ∧ e.2 ≠ []

def mkEnumElem (e : ESpec) : Bp.Elem := Bp.Elem.enum (plainEnumBp e.1 e.2)

def enumE (ap : Bool) (e : ESpec) (he : ESpecOK e) : EForm ap where
  pre := none
  head := 'E'
  body := (enumText e.1 e.2).tail
  elem := mkEnumElem e
  headOK := by decide
  headAscii := by decide
  preOK := trivial
  noTab := by
    have := enumText_no_tab e.1 e.2 he.1 he.2.1
    simpa [enumText] using this
  parse := by
    intro c c0 post hb hr0 hp0 _ hends
    have hr0' : c0.rest = enumText e.1 e.2 ++ post := by rw [hr0]; simp [enumText]
    have hN0 : Next c0 'E' _ := skipWs_rest_head c0 'E' _ (by rw [hr0]) (by decide)
    have htab : tableRule ap c = .fail :=
      tableRule_fail' ap c c0 [] hb (ckw_fail _ c0 _ _ hN0 (swc_ne 'E' _ "table" 't' _ rfl (by decide)))
    have href : refRule c = .fail :=
      refRule_fail' c c0 [] hb (clit_fail _ c0 _ _ hN0 (swc_ne 'E' _ "ref" 'r' _ rfl (by decide)))
    obtain ⟨c9, hrule, hQ⟩ := enumRule_okP c c0 e.1 e.2 post (After post) hb hr0' hp0 he.1 he.2.1 he.2.2
      (fun c7 hr7 hp7 => endRule_afterE c7 post hends hr7 hp7)
    refine ⟨c9, ?_, hQ⟩
    unfold element alt mkEnumElem
    simp only [bind, pbind, htab, href, hrule, pure, ppure]

theorem enumE_text (ap : Bool) (e : ESpec) (he : ESpecOK e) : (enumE ap e he).text = enumText e.1 e.2 := by
  simp [EForm.text, enumE, commentText, enumText]

/-! ### sticky notes -/

theorem stickyText_append (name t post : Str) :
    stickyText name t ++ post = 'N' :: 'o' :: 't' :: 'e' :: ' ' :: (name ++ ' ' :: '{' :: '\n' :: ' ' :: ' ' :: ' ' :: ' ' ::
      '\'' :: (prepareTextForDbml t ++ '\'' :: '\n' :: '}' :: post)) := by
  simp [stickyText, tail1, tail2, tail3]

theorem stickyNoteRule_okP (c c0 : Cur) (name t post : Str) (Q : Cur → Prop)
    (hb : cBefore c = .ok [] c0) (hc : c0.rest = stickyText name t ++ post) (hp : c0.pastEnd = false)
    (hne : name ≠ []) (hname : name.all isNameChar = true)
    (h1 : C13.oneLine t = true) (h3 : hasTriple t = false)
    (hend : ∀ c7 : Cur, c7.rest = post → c7.pastEnd = false → ∃ c9, endRule c7 = .ok () c9 ∧ Q c9) :
    ∃ c9, stickyNoteRule c = .ok { name := name, text := t } c9 ∧ Q c9 := by
  rw [stickyText_append] at hc
  obtain ⟨n0, ns, rfl⟩ : ∃ n0 ns, name = n0 :: ns := by
    cases name with
    | nil => exact absurd rfl hne
    | cons a as => exact ⟨a, as, rfl⟩
  have hn0 : isNameChar n0 = true := by simp only [List.all_cons, Bool.and_eq_true] at hname; exact hname.1
  obtain ⟨hn0w, hn0n, hn0s⟩ := nameChar_facts n0 hn0
  have hN : Next c0 'N' _ := skipWs_rest_head c0 'N' _ (by rw [hc]) (by decide)
  obtain ⟨c1, hk, hr1, hp1⟩ := clit_ok "note" c0 ['N', 'o', 't', 'e'] _ hN
    (by decide) (by simp [startsWithCaseless]; decide) hp
  exact stickyNoteRule_from c c0 c1 (n0 :: ns) (n0 :: ns) t post Q hb hk hr1 hp1 (spells_bare _ (by simp) hname) h1 h3 hend

/-- a sticky note the round trip covers: a bare name and one plain normalised line without a triple quote -/
def StickyOK (s : Sticky) : Prop :=
  s.name ≠ [] ∧ s.name.all isNameChar = true ∧ Plain s.text ∧ hasTriple s.text = false ∧ norm s.text = s.text

def mkStickyElem (s : Sticky) : Bp.Elem := Bp.Elem.sticky { name := s.name, text := s.text }

def stickyE (ap : Bool) (s : Sticky) (hs : StickyOK s) : EForm ap where
  pre := none
  head := 'N'
  body := (stickyText s.name s.text).tail
  elem := mkStickyElem s
  headOK := by decide
  headAscii := by decide
  preOK := trivial
  noTab := by
    have := stickyText_no_tab s.name s.text hs.2.1 hs.2.2.1
    simpa [stickyText] using this
  parse := by
    intro c c0 post hb hr0 hp0 _ hends
    have hr0' : c0.rest = stickyText s.name s.text ++ post := by rw [hr0]; simp [stickyText]
    have hN0 : Next c0 'N' _ := skipWs_rest_head c0 'N' _ (by rw [hr0]) (by decide)
    have htab : tableRule ap c = .fail :=
      tableRule_fail' ap c c0 [] hb (ckw_fail _ c0 _ _ hN0 (swc_ne 'N' _ "table" 't' _ rfl (by decide)))
    have href : refRule c = .fail :=
      refRule_fail' c c0 [] hb (clit_fail _ c0 _ _ hN0 (swc_ne 'N' _ "ref" 'r' _ rfl (by decide)))
    have henum : enumRule c = .fail :=
      enumRule_fail' c c0 [] hb (clit_fail _ c0 _ _ hN0 (swc_ne 'N' _ "enum" 'e' _ rfl (by decide)))
    have hgrp : tableGroupRule c = .fail :=
      tableGroupRule_fail' c c0 [] hb (clit_fail _ c0 _ _ hN0 (swc_ne 'N' _ "TableGroup" 'T' _ rfl (by decide)))
    have hprj : projectRule c = .fail :=
      projectRule_fail' c c0 [] hb (clit_fail _ c0 _ _ hN0 (swc_ne 'N' _ "project" 'p' _ rfl (by decide)))
    have h1 : C13.oneLine s.text = true := by
      simp only [C13.oneLine, Bool.not_eq_true', List.any_eq_false, Bool.or_eq_true, decide_eq_true_eq, not_or]
      intro ch hch
      have := (hs.2.2.1 ch hch).1
      constructor <;> (rintro rfl; simp [isLineBreak] at this)
    obtain ⟨c9, hrule, hQ⟩ := stickyNoteRule_okP c c0 s.name s.text post (After post) hb hr0' hp0 hs.1 hs.2.1 h1 hs.2.2.2.1
      (fun c7 hr7 hp7 => endRule_afterE c7 post hends hr7 hp7)
    refine ⟨c9, ?_, hQ⟩
    unfold element alt mkStickyElem
    simp only [bind, pbind, htab, href, henum, hgrp, hprj, hrule, pure, ppure]

theorem stickyE_text (ap : Bool) (s : Sticky) (hs : StickyOK s) : (stickyE ap s hs).text = stickyText s.name s.text := by
  simp [EForm.text, stickyE, commentText, stickyText]

end C02
end PyDBML
