/-
C01/C02 — whole documents as sequences of ELEMENT FORMS.

An `EForm ap` is one top-level element as the renderer writes it (possibly under a one-line comment), the blueprint
the grammar reads from it, and the proof that `element ap` reads exactly that - whatever precedes it (the start of the
text or the line break left by the previous element's end rule) and whatever follows it (the end of the text or a line
break).  `parseDoc_elems` carries any list of element forms through the fuelled `many` of the document rule once and
for all; tables (in any column form), references, enums and sticky notes are instances.
-/
import PyDBMLProofs.Props.C02FormRefs
import PyDBMLProofs.Props.C02Enum
namespace PyDBML
namespace C02
open Lex Grammar Build

/-- what follows an element: the end of the text, or a line break -/
def EndsOK (post : Str) : Prop := post = [] ∨ ∃ r, post = '\n' :: r

/-- where the end rule of an element leaves the cursor -/
def After (post : Str) (c9 : Cur) : Prop :=
  (post = [] → c9.rest = [] ∧ c9.pastEnd = true) ∧ (∀ r, post = '\n' :: r → c9.rest = r ∧ c9.pastEnd = false)

theorem endRule_afterE (c7 : Cur) (post : Str) (h : EndsOK post) (hr : c7.rest = post) (hp : c7.pastEnd = false) :
    ∃ c9, endRule c7 = .ok () c9 ∧ After post c9 := by
  rcases h with rfl | ⟨r, rfl⟩
  · obtain ⟨c9, h1, h2, h3⟩ := endRule_eof c7 hr hp
    exact ⟨c9, h1, And.intro (fun _ => ⟨h2, h3⟩) (fun r h => by cases h)⟩
  · obtain ⟨c9, h1, h2, h3⟩ := endRule_nl c7 r hr hp
    exact ⟨c9, h1, And.intro (fun h => by cases h) (fun r' h => by cases h; exact ⟨h2, h3⟩)⟩

theorem refEnd_afterE (c7 : Cur) (post : Str) (h : EndsOK post) (hr : c7.rest = post) (hp : c7.pastEnd = false) :
    ∃ c9, (alt lineEnd stringEnd) c7 = .ok () c9 ∧ After post c9 := by
  rcases h with rfl | ⟨r, rfl⟩
  · obtain ⟨c9, h1, h2, h3⟩ := refEnd_eof c7 hr hp
    exact ⟨c9, h1, And.intro (fun _ => ⟨h2, h3⟩) (fun r h => by cases h)⟩
  · obtain ⟨c9, h1, h2, h3⟩ := refEnd_nl c7 r hr hp
    exact ⟨c9, h1, And.intro (fun h => by cases h) (fun r' h => by cases h; exact ⟨h2, h3⟩)⟩

/-- one top-level element in the renderer's spelling, with the proof that the element rule reads it -/
structure EForm (ap : Bool) where
  /-- the one-line comment above it, if any -/
  pre : Option Str
  /-- the element's own text is `head :: body` -/
  head : Char
  body : Str
  elem : Bp.Elem
  headOK : isWs head = false ∧ head ≠ '\n' ∧ head ≠ '/'
  headAscii : head.toNat < 128
  preOK : CmOK pre
  noTab : ∀ c ∈ head :: body, c ≠ '\t'
  parse : ∀ (c c0 : Cur) (post : Str), cBefore c = .ok (cmList pre) c0 → c0.rest = head :: (body ++ post) →
    c0.pastEnd = false → (∀ p, c0.prev = some p → isKwIdent p = false) → EndsOK post →
    ∃ c9, element ap c = .ok elem c9 ∧ After post c9

variable {ap : Bool}

def EForm.text (e : EForm ap) : Str := commentText e.pre ++ e.head :: e.body

def docTailE : List (EForm ap) → Str
  | [] => []
  | e :: es => '\n' :: '\n' :: (e.text ++ docTailE es)

def afterE : List (EForm ap) → Str
  | [] => []
  | e :: es => '\n' :: (e.text ++ docTailE es)

def docTextE : List (EForm ap) → Str
  | [] => []
  | e :: es => e.text ++ docTailE es

theorem docTailE_ends (es : List (EForm ap)) : EndsOK (docTailE es) := by
  cases es with
  | nil => exact Or.inl rfl
  | cons e r => exact Or.inr ⟨_, rfl⟩

theorem after_docTailE (es : List (EForm ap)) (c9 : Cur) (h : After (docTailE es) c9) :
    c9.rest = afterE es ∧ c9.pastEnd = es.isEmpty := by
  cases es with
  | nil => simpa [afterE] using h.1 rfl
  | cons e r => simpa [afterE] using h.2 _ rfl

theorem EForm.text_length (e : EForm ap) : 1 ≤ e.text.length := by
  simp [EForm.text]; omega

theorem afterE_length (es : List (EForm ap)) : es.length ≤ (afterE es).length := by
  have key : ∀ es : List (EForm ap), es.length ≤ (docTailE es).length := by
    intro es
    induction es with
    | nil => simp
    | cons e r ih => simp only [docTailE, List.length_cons, List.length_append]; omega
  cases es with
  | nil => simp
  | cons e r =>
    have := key r
    simp only [afterE, List.length_cons, List.length_append]; omega

theorem afterE_lt (e : EForm ap) (r : List (EForm ap)) :
    (afterE r).length < (afterE (e :: r)).length ∧ (afterE r).length < (docTextE (e :: r)).length := by
  have h := e.text_length
  cases r with
  | nil => simp only [afterE, docTextE, docTailE, List.length_cons, List.length_append, List.length_nil]; omega
  | cons e2 r2 => simp only [afterE, docTextE, docTailE, List.length_cons, List.length_append]; omega

theorem element_afterE (c : Cur) (e : EForm ap) (es : List (EForm ap)) (hc : c.rest = afterE (e :: es))
    (hp : c.pastEnd = false) :
    ∃ c9, element ap c = .ok e.elem c9 ∧ c9.rest = afterE es ∧ c9.pastEnd = es.isEmpty := by
  obtain ⟨c0, hb, hr0, hp0, hpv0⟩ := cBefore_nl_comment c e.pre e.head (e.body ++ docTailE es) e.headOK.1 e.headOK.2.1
    e.headOK.2.2 (by rw [hc]; simp [afterE, EForm.text]) hp e.preOK
  obtain ⟨c9, hel, haft⟩ := e.parse c c0 (docTailE es) hb hr0 hp0 hpv0 (docTailE_ends es)
  exact ⟨c9, hel, after_docTailE es c9 haft⟩

theorem many_elems : ∀ (es : List (EForm ap)) (fuel : Nat) (c : Cur), es.length < fuel →
    c.rest = afterE es → c.pastEnd = es.isEmpty →
    ∃ c', many (element ap) fuel c = .ok (es.map (·.elem)) c' ∧ c'.rest = [] ∧ c'.pastEnd = true := by
  intro es
  induction es with
  | nil =>
    intro fuel c hf hc hp
    obtain ⟨f, rfl⟩ : ∃ f, fuel = f + 1 := ⟨fuel - 1, by simp at hf; omega⟩
    have hp' : c.pastEnd = true := by simpa using hp
    refine ⟨c, ?_, by simpa [afterE] using hc, hp'⟩
    rw [many]
    simp [element_fail_pastEnd ap c hp']
  | cons e r ih =>
    intro fuel c hf hc hp
    obtain ⟨f, rfl⟩ : ∃ f, fuel = f + 1 := ⟨fuel - 1, by simp at hf; omega⟩
    have hp' : c.pastEnd = false := by simpa using hp
    obtain ⟨c1, hel, hr1, hp1⟩ := element_afterE c e r hc hp'
    obtain ⟨c2, hm, hr2, hp2⟩ := ih f c1 (by simp at hf; omega) hr1 hp1
    refine ⟨c2, ?_, hr2, hp2⟩
    have hlen : c1.rest.length ≠ c.rest.length := by
      rw [hr1, hc]; have := (afterE_lt e r).1; omega
    rw [many]
    simp only [hel, hlen, decide_false, Bool.false_and, Bool.false_eq_true, ↓reduceIte, hm, List.map_cons]

theorem EForm.text_no_tab (e : EForm ap) : ∀ c ∈ e.text, c ≠ '\t' := by
  intro c hc
  rcases List.mem_append.mp hc with h | h
  · exact commentText_no_tab e.pre e.preOK c h
  · exact e.noTab c h

theorem docTailE_no_tab : ∀ (es : List (EForm ap)), ∀ c ∈ docTailE es, c ≠ '\t' := by
  intro es
  induction es with
  | nil => intro c hc; simp [docTailE] at hc
  | cons e r ih =>
    intro c hc
    simp only [docTailE, List.mem_cons, List.mem_append] at hc
    rcases hc with rfl | rfl | h | h
    · decide
    · decide
    · exact e.text_no_tab c h
    · exact ih c h

/-- **the document rule reads a sequence of element forms as exactly their blueprints, in order** -/
theorem parseDoc_elems (es : List (EForm ap)) (hne : es ≠ []) :
    ∃ c', parseDoc ap (docTextE es) = .ok (es.map (·.elem)) c' := by
  obtain ⟨e, r, rfl⟩ : ∃ e r, es = e :: r := by
    cases es with
    | nil => exact absurd rfl hne
    | cons a as => exact ⟨a, as, rfl⟩
  have hnotab : ∀ c ∈ docTextE (e :: r), c ≠ '\t' := by
    intro c hc
    rcases List.mem_append.mp hc with h | h
    · exact e.text_no_tab c h
    · exact docTailE_no_tab r c h
  unfold parseDoc expandTabs
  rw [expandTabsAux_plain 0 _ hnotab]
  let c0 : Cur := { rest := docTextE (e :: r) }
  obtain ⟨cb, hb, hrb, hpb, hpvb⟩ := cBefore_comment c0 e.pre e.head (e.body ++ docTailE r) e.headOK.1 e.headOK.2.1
    e.headOK.2.2 (show c0.rest = _ by simp [c0, docTextE, EForm.text]) rfl e.preOK (by intro p hpp; cases hpp)
  obtain ⟨c1, hel, haft⟩ := e.parse c0 cb (docTailE r) hb hrb hpb hpvb (docTailE_ends r)
  obtain ⟨hr1, hp1⟩ := after_docTailE r c1 haft
  have hfuel : r.length < c0.rest.length + 1 := by
    have h1 := afterE_length r
    have h2 := (afterE_lt e r).2
    show r.length < (docTextE (e :: r)).length + 1
    omega
  obtain ⟨c2, hm, hr2, hp2⟩ := many_elems r (c0.rest.length + 1) c1 hfuel hr1 hp1
  have hmany : manyF (element ap) c0 = .ok ((e :: r).map (·.elem)) c2 := by
    unfold manyF fuelOf
    have hlen : c1.rest.length ≠ c0.rest.length := by
      rw [hr1]
      show (afterE r).length ≠ (docTextE (e :: r)).length
      have := (afterE_lt e r).2; omega
    rw [many]
    simp only [hel, hlen, decide_false, Bool.false_and, Bool.false_eq_true, ↓reduceIte, hm, List.map_cons]
  obtain ⟨c9, hse⟩ := stringEnd_eof c2 (skipWs_rest_nil c2 hr2)
  refine ⟨c9, ?_⟩
  show document ap c0 = _
  unfold document
  simp only [bind, pbind, hmany, skipNl_pastEnd c2 hp2, hse, pure, ppure]

theorem docTextE_join : ∀ (es : List (EForm ap)), joinWith (lit "\n\n") (es.map (·.text)) = docTextE es := by
  intro es
  induction es with
  | nil => rfl
  | cons e r ih =>
    cases r with
    | nil => simp [joinWith, docTextE, docTailE]
    | cons e2 r2 =>
      simp only [List.map_cons, joinWith, docTextE, docTailE] at ih ⊢
      rw [ih]
      simp [lit]

/-! ### instances -/

variable {σ : Type}

/-- a table in any column form -/
def ColForm.tableE (F : ColForm σ) (ap : Bool) (t : FTab σ) (ht : F.specOK ap t) : EForm ap where
  pre := t.comment
  head := 'T'
  body := 'a' :: 'b' :: 'l' :: 'e' :: ' ' :: '"' :: (t.name ++ '"' :: ' ' :: '{' :: '\n' :: (F.text t.cols ++ (noteBlock t.note ++ ['}'])))
  elem := F.mkElem t
  headOK := by decide
  headAscii := by decide
  preOK := ht.2.2.2.1
  noTab := F.tableTextN_no_tab ap t.name t.cols t.note ht.1 ht.2.1 ht.2.2.2.2.1
  parse := by
    intro c c0 post hb hr0 hp0 hpv0 hends
    obtain ⟨c9, hrule, hQ⟩ := F.tableRule_okP ap c c0 t.name t.cols t.note post (After post) (cmList t.comment) hb
      (by rw [hr0]; simp [ColForm.tableTextP]) hp0 hpv0 ht.1 ht.2.1 ht.2.2.1 ht.2.2.2.2
      (fun c7 hr7 hp7 => endRule_afterE c7 post hends hr7 hp7)
    refine ⟨c9, ?_, hQ⟩
    unfold element alt ColForm.mkElem
    rw [joinBefore_cmList] at hrule
    simp only [bind, pbind, hrule, pure, ppure]

theorem ColForm.tableE_text (F : ColForm σ) (ap : Bool) (t : FTab σ) (ht : F.specOK ap t) :
    (F.tableE ap t ht).text = F.tabText t := by
  simp [EForm.text, ColForm.tableE, ColForm.tabText, ColForm.tableTextN]

/-- a standalone reference in block form -/
def refE (ap : Bool) (r : RText) (hok : RTextOK r) : EForm ap where
  pre := none
  head := 'R'
  body := (refText r).tail
  elem := mkRefElem r
  headOK := by decide
  headAscii := by decide
  preOK := trivial
  noTab := by
    have := refTextP_no_tab r [] hok (by simp)
    simpa [refText, refTextP] using this
  parse := by
    intro c c0 post hb hr0 hp0 _ hends
    have hr0' : c0.rest = refTextP r post := by
      rw [hr0, refTextP_append]; simp [refText, refTextP]
    have hN0 : Next c0 'R' _ := skipWs_rest_head c0 'R' _ (by rw [hr0]) (by decide)
    have htab : tableRule ap c = .fail :=
      tableRule_fail' ap c c0 [] hb (ckw_fail _ c0 _ _ hN0 (swc_ne 'R' _ "table" 't' _ rfl (by decide)))
    obtain ⟨c9, hrule, hQ⟩ := refRule_okP c c0 r post (After post) hb hr0' hp0 hok
      (fun c7 hr7 hp7 => refEnd_afterE c7 post hends hr7 hp7)
    refine ⟨c9, ?_, hQ⟩
    unfold element alt mkRefElem
    simp only [bind, pbind, htab, hrule, pure, ppure]

theorem refE_text (ap : Bool) (r : RText) (hok : RTextOK r) : (refE ap r hok).text = refText r := by
  simp [EForm.text, refE, commentText, refText, refTextP]

end C02
end PyDBML
