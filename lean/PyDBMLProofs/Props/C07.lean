/-
C07 — malformed text is never accepted: the whole input must be valid DBML.
-/
import PyDBMLModel
namespace PyDBML
namespace C07
open Lex Grammar

theorem advance_suffix (c : Cur) (n : Nat) : (advance c n).rest <:+ c.rest := by
  induction n generalizing c with
  | zero => exact List.suffix_refl _
  | succ n ih =>
    unfold advance
    cases h : c.rest with
    | nil => simp [h]
    | cons x r =>
      simp only
      have := ih { c with prev := some x, rest := r }
      exact this.trans (List.suffix_cons x r)

theorem skipWsList_suffix (p : Option Char) (s : Str) : (skipWsList p s).2 <:+ s := by
  induction s generalizing p with
  | nil => simp [skipWsList]
  | cons x r ih =>
    unfold skipWsList
    split
    · exact (ih (some x)).trans (List.suffix_cons x r)
    · exact List.suffix_refl _

theorem skipWs_suffix (c : Cur) : (skipWs c).rest <:+ c.rest := by
  unfold skipWs
  exact skipWsList_suffix _ _

/-- the only whitespace `StringEnd` tolerates is `" \t\r"`: when it succeeds nothing is left. -/
theorem stringEnd_ok (c c' : Cur) (h : stringEnd c = .ok () c') : c'.rest = [] := by
  unfold stringEnd at h
  simp only at h
  split at h
  · cases h
    simp_all
  · cases h

/-- A database (blueprint list) is produced only if the document rule ends with `StringEnd`
    succeeding: no non-blank text can remain after the last element — no truncation. -/
theorem accepts_only_whole_input (props : Bool) (text : Str) (es : List Bp.Elem) (c : Cur)
    (h : parseDoc props text = .ok es c) : c.rest = [] := by
  unfold parseDoc document at h
  simp only [bind, pbind] at h
  cases h1 : manyF (element props) { rest := expandTabs text } with
  | ok es' c1 =>
    rw [h1] at h
    simp only at h
    cases h2 : skipNl c1 with
    | ok u c2 =>
      rw [h2] at h
      simp only at h
      cases h3 : stringEnd c2 with
      | ok u' c3 =>
        rw [h3] at h
        simp only [pure, ppure] at h
        cases h
        exact stringEnd_ok _ _ h3
      | fail => rw [h3] at h; cases h
      | fatal => rw [h3] at h; cases h
      | exn e => rw [h3] at h; cases h
    | fail => rw [h2] at h; cases h
    | fatal => rw [h2] at h; cases h
    | exn e => rw [h2] at h; cases h
  | fail => rw [h1] at h; cases h
  | fatal => rw [h1] at h; cases h
  | exn e => rw [h1] at h; cases h

end C07
end PyDBML
