/-
C04 — inline references: the FOREIGN KEY clause the model writes inside the CREATE TABLE of the key holder, read back
(`read_render_inline_fk`): the key holder's columns, the referenced table and columns, correctly directed.
-/
import PyDBMLModel
import PyDBMLProofs.Props.C04Read
namespace PyDBML
namespace C04
open Sql C03

/-- the clause the model writes for an inline reference that is not many-to-many -/
def fkClause (r : Ref) (st rt : Table) : Str :=
  constraintText r ++ lit "FOREIGN KEY (" ++ joinWith (lit ", ") ((namesAt st (refSides r).1.2).map quoteN) ++ [')']
    ++ lit " REFERENCES " ++ qualName rt.schema rt.name ++ lit " (" ++ joinWith (lit ", ") ((namesAt rt (refSides r).2.2).map quoteN)
    ++ [')'] ++ onClauses r

theorem renderInlineRef_clause (db : Db) (r : Ref) (st rt : Table)
    (hst : db.tables[(refSides r).1.1]? = some st) (hrt : db.tables[(refSides r).2.1]? = some rt)
    (hsc : ∀ i ∈ (refSides r).1.2, i < st.columns.length) (hrc : ∀ i ∈ (refSides r).2.2, i < rt.columns.length)
    (hcm : r.comment = none) : renderInlineRef db r = .ok (fkClause r st rt) := by
  unfold renderInlineRef
  have g1 : getD? db.tables (refSides r).1.1 "ref table position" = .ok st := by simp [getD?, hst]
  have g2 : getD? db.tables (refSides r).2.1 "ref table position" = .ok rt := by simp [getD?, hrt]
  rcases hrs : refSides r with ⟨⟨a, b⟩, ⟨c, d⟩⟩
  simp only [hrs] at g1 g2 hsc hrc
  simp only [g1, g2, colNames_ok st b hsc, colNames_ok rt d hrc, bind, Except.bind, pure, Except.pure]
  unfold fkClause
  simp [hrs, Sql.optComment, hcm, lit]

/-- what the model says the clause states -/
def fkClauseDescOf (r : Ref) (st rt : Table) : FkClauseDesc :=
  { constraint := constraintOf r, srcCols := namesAt st (refSides r).1.2, dst := qualName rt.schema rt.name,
    dstCols := namesAt rt (refSides r).2.2, actions := onClauses r }

theorem readFkClause_fkClause (r : Ref) (st rt : Table) (hne1 : (refSides r).1.2 ≠ []) (hne2 : (refSides r).2.2 ≠ [])
    (hqt : '"' ∉ rt.schema ∧ '"' ∉ rt.name)
    (hqc : (∀ n ∈ namesAt st (refSides r).1.2, '"' ∉ n) ∧ (∀ n ∈ namesAt rt (refSides r).2.2, '"' ∉ n))
    (hqn : ∀ n, r.name = some n → '"' ∉ n) :
    readFkClause (fkClause r st rt) = some (fkClauseDescOf r st rt) := by
  unfold readFkClause fkClause
  simp only [List.append_assoc, List.cons_append, List.nil_append]
  rw [readConstraint_ok r _ hqn]
  simp only []
  rw [stripKw_append]
  simp only []
  rw [readNamesR_ok _ _ _ (by simpa [namesAt] using hne1) (by
    have := joinNames_length (namesAt st (refSides r).1.2)
    simp only [List.length_append]
    omega) hqc.1]
  simp only []
  rw [stripKw_append]
  simp only []
  rw [show lit " (" ++ _ = ' ' :: (lit "(" ++ _) from rfl, readQual_ok _ _ _ hqt.1 hqt.2]
  simp only []
  rw [show (' ' :: (lit "(" ++ _) : Str) = lit " (" ++ _ from rfl, stripKw_append]
  simp only []
  rw [readNamesR_ok _ _ _ (by simpa [namesAt] using hne2) (by
    have := joinNames_length (namesAt rt (refSides r).2.2)
    simp only [List.length_append]
    omega) hqc.2]
  rfl

/-- **the reader inverts the renderer of inline references**: the clause written inside the CREATE TABLE of the key
    holder (which table that is: `inline_site`, `source_is_keyHolder`) names the key holder's columns in order, the
    referenced table as qualified, its columns in order, `CONSTRAINT` exactly when the reference is named, and the action
    clauses. -/
theorem read_render_inline_fk (db : Db) (r : Ref) (st rt : Table)
    (hst : db.tables[(refSides r).1.1]? = some st) (hrt : db.tables[(refSides r).2.1]? = some rt)
    (hsc : ∀ i ∈ (refSides r).1.2, i < st.columns.length) (hrc : ∀ i ∈ (refSides r).2.2, i < rt.columns.length)
    (hcm : r.comment = none) (hne1 : (refSides r).1.2 ≠ []) (hne2 : (refSides r).2.2 ≠ [])
    (hqt : '"' ∉ rt.schema ∧ '"' ∉ rt.name)
    (hqc : (∀ n ∈ namesAt st (refSides r).1.2, '"' ∉ n) ∧ (∀ n ∈ namesAt rt (refSides r).2.2, '"' ∉ n))
    (hqn : ∀ n, r.name = some n → '"' ∉ n) :
    ∃ clause, renderInlineRef db r = .ok clause ∧ readFkClause clause = some (fkClauseDescOf r st rt) :=
  ⟨_, renderInlineRef_clause db r st rt hst hrt hsc hrc hcm, readFkClause_fkClause r st rt hne1 hne2 hqt hqc hqn⟩

example : readFkClause (lit "CONSTRAINT \"fk\" FOREIGN KEY (\"a id\") REFERENCES \"s\".\"a\" (\"id\") ON UPDATE SET NULL")
    = some ⟨some (lit "fk"), [lit "a id"], lit "\"s\".\"a\"", [lit "id"], lit " ON UPDATE SET NULL"⟩ := by decide +kernel

end C04
end PyDBML
