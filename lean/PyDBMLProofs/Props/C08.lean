/-
C08 — no internal errors.  What the parser model can raise, for ANY input text.
-/
import PyDBMLProofs.Hoare
import PyDBMLProofs.Props.C06
namespace PyDBML
namespace C08
open Lex Grammar Hoare Build

/-- the only exceptions a parse action of the grammar raises: `SyntaxError` of a column-less table,
    and `ValueError` of `int()` on a literal of more than 4300 digits (known finding) -/
def Allowed (e : PErr) : Prop := e = .noColumns ∨ e = .internal .ValueError

macro "raises_tac" : tactic => `(tactic| repeat' (first
  | infer_instance
  | apply raises_bind
  | apply raises_cut
  | apply raises_alt
  | apply raises_opt
  | apply raises_manyF
  | apply raises_orLongest
  | apply raises_skipWs
  | intro _
  | split))

variable {E : PErr → Prop}

instance : Raises E skipNl := by unfold skipNl; raises_tac
instance : Raises E cBefore := by unfold cBefore; raises_tac
instance : Raises E cOpt := by unfold cOpt; raises_tac
instance : Raises E endRule := by unfold endRule; raises_tac
instance : Raises E noteRule := by unfold noteRule; raises_tac
instance : Raises E noteObject := by unfold noteObject; raises_tac
instance : Raises E noteElement := by unfold noteElement; raises_tac

theorem raises_expr (fuel : Nat) : Raises E (factor fuel) ∧ Raises E (expression fuel) := by
  induction fuel with
  | zero => exact ⟨by unfold factor; infer_instance, by unfold expression; infer_instance⟩
  | succ n ih =>
    have hf : Raises E (factor (n + 1)) := by
      have := ih.2
      unfold factor; raises_tac
    refine ⟨hf, ?_⟩
    constructor
    intro c e h
    unfold expression at h
    have := ih.1
    cases hm : many (factor n) (fuelOf c) c with
    | ok a c' => rw [hm] at h; cases h
    | fail => rw [hm] at h; cases h
    | fatal => rw [hm] at h; cases h
    | exn e' =>
      rw [hm] at h; simp only [Res.exn.injEq] at h; subst h
      exact (raises_many (factor n) ih.1 _).out _ _ hm

instance (fuel : Nat) : Raises E (factor fuel) := (raises_expr fuel).1
instance (fuel : Nat) : Raises E (expression fuel) := (raises_expr fuel).2

instance : Raises E typeArgs := by
  constructor
  intro c e h
  unfold typeArgs at h
  cases h1 : litRaw ['('] c with
  | ok u c1 =>
    rw [h1] at h; simp only at h
    cases h2 : expression (fuelOf c1) c1 with
    | ok u2 c2 =>
      rw [h2] at h; simp only at h
      cases h3 : litRaw [')'] c2 with
      | ok u3 c3 => rw [h3] at h; cases h
      | fail => rw [h3] at h; cases h
      | fatal => rw [h3] at h; cases h
      | exn e' => rw [h3] at h; simp only [Res.exn.injEq] at h; subst h; exact Raises.out _ _ h3
    | fail => rw [h2] at h; cases h
    | fatal => rw [h2] at h; cases h
    | exn e' => rw [h2] at h; simp only [Res.exn.injEq] at h; subst h; exact Raises.out _ _ h2
  | fail => rw [h1] at h; cases h
  | fatal => rw [h1] at h; cases h
  | exn e' => rw [h1] at h; simp only [Res.exn.injEq] at h; subst h; exact Raises.out _ _ h1

instance : Raises E nameRaw := by
  constructor
  intro c e h
  unfold nameRaw at h
  split at h
  · split at h
    · cases h
    · exact Raises.out _ _ h
  · cases h

instance : Raises E columnType := by unfold columnType; raises_tac
instance : Raises E colName := by unfold colName; raises_tac
instance : Raises E refInline := by unfold refInline; raises_tac
instance : Raises E onOption := by unfold onOption; raises_tac
instance : Raises E refSetting := by unfold refSetting; raises_tac
instance : Raises E refSettings := by unfold refSettings; raises_tac
instance : Raises E whites := by unfold whites; prim_tac
instance : Raises E compositeName := by unfold compositeName; raises_tac
instance : Raises E nameOrComposite := by unfold nameOrComposite; raises_tac
instance : Raises E refCols := by unfold refCols; raises_tac
instance (nm : Option Str) (before : List Str) : Raises E (refBody nm before) := by unfold refBody; raises_tac
instance : Raises E refShort := by unfold refShort; raises_tac
instance : Raises E refLong := by unfold refLong; raises_tac
instance : Raises E refRule := by unfold refRule; raises_tac
instance : Raises E booleanLiteral := by unfold booleanLiteral; raises_tac

/-- the one parse action of the grammar that can raise something internal: `int()` of more than
    4300 digits -/
instance (t : Str) : Raises Allowed (numberValue t) := by
  unfold numberValue
  split
  · infer_instance
  · split
    · exact raises_pexn _ (Or.inr rfl)
    · infer_instance

/-- … and it does so only for such a literal -/
theorem numberValue_raises_only_long (t : Str) (c : Cur) (e : PErr) (h : numberValue t c = .exn e) :
    t.length > 4300 ∧ e = .internal .ValueError := by
  unfold numberValue at h
  split at h
  · cases h
  · split at h
    · rename_i hl
      simp only [pexn, Res.exn.injEq] at h
      exact ⟨hl, h.symm⟩
    · cases h

instance : Raises Allowed defaultRule := by unfold defaultRule; raises_tac
instance : Raises E prop := by unfold prop; raises_tac
instance : Raises Allowed columnSetting := by unfold columnSetting; raises_tac
instance : Raises Allowed columnSettingWithProperty := by unfold columnSettingWithProperty; raises_tac
instance : Raises Allowed columnSettings := by unfold columnSettings; raises_tac
instance : Raises Allowed columnSettingsWithProperties := by unfold columnSettingsWithProperties; raises_tac
instance (props : Bool) : Raises Allowed (tableColumn props) := by unfold tableColumn; raises_tac
instance : Raises E indexType := by unfold indexType; raises_tac
instance : Raises E indexSetting := by unfold indexSetting; raises_tac
instance : Raises E indexSettings := by unfold indexSettings; raises_tac
instance : Raises E subject := by unfold subject; raises_tac
instance : Raises E singleIndex := by unfold singleIndex; raises_tac
instance : Raises E compositeIndex := by unfold compositeIndex; raises_tac
instance : Raises E indexRule := by unfold indexRule; raises_tac
instance : Raises E indexesRule := by unfold indexesRule; raises_tac
instance : Raises E aliasRule := by unfold aliasRule; raises_tac
instance : Raises E headerColor := by unfold headerColor; raises_tac
instance : Raises E tableSetting := by unfold tableSetting; raises_tac
instance : Raises E tableSettings := by unfold tableSettings; raises_tac
instance (props : Bool) : Raises Allowed (tableElement props) := by unfold tableElement; raises_tac
instance : Raises E tableName := by unfold tableName; raises_tac
instance (props : Bool) : Raises Allowed (tableRule props) := by
  unfold tableRule
  raises_tac
  dsimp only
  raises_tac
  exact raises_pexn (E := Allowed) _ (Or.inl rfl)
instance : Raises E enumSettings := by unfold enumSettings; raises_tac
instance : Raises E enumItem := by unfold enumItem; raises_tac
instance : Raises E enumName := by unfold enumName; raises_tac
instance : Raises E enumRule := by unfold enumRule; raises_tac
instance : Raises E groupTableName := by unfold groupTableName; raises_tac
instance : Raises E tgElement := by unfold tgElement; raises_tac
instance : Raises E tgSetting := by unfold tgSetting; raises_tac
instance : Raises E tgSettings := by unfold tgSettings; raises_tac
instance : Raises E tableGroupRule := by unfold tableGroupRule; raises_tac
instance : Raises E projectField := by unfold projectField; raises_tac
instance : Raises E projectElement := by unfold projectElement; raises_tac
instance : Raises E projectRule := by unfold projectRule; raises_tac
instance : Raises E stickyNoteRule := by unfold stickyNoteRule; raises_tac
instance (props : Bool) : Raises Allowed (element props) := by unfold element; raises_tac
instance (props : Bool) : Raises Allowed (document props) := by unfold document; raises_tac

/-- **Any text**: a Python exception out of the grammar's parse actions is the `SyntaxError` of a
    column-less table or the `ValueError` of `int()` on an over-long literal; nothing else. -/
theorem parseDoc_raises (props : Bool) (text : Str) (e : PErr)
    (h : parseDoc props text = .exn e) : e = .noColumns ∨ e = .internal .ValueError :=
  (inferInstance : Raises Allowed (document props)).out _ _ h

/-! ### the build phase raises only the library's own exceptions -/

/-- an exception of `pydbml.exceptions` (or the model declining: `outOfModel`) -/
def BuildErr (e : PErr) : Prop := (∃ n, e = .lib n) ∨ ∃ w, e = .outOfModel w

theorem bind_error {ε α β} (x : Except ε α) (f : α → Except ε β) (e : ε)
    (h : (x >>= f) = .error e) : x = .error e ∨ ∃ a, x = .ok a ∧ f a = .error e := by
  cases x with
  | error e' => left; simpa [bind, Except.bind] using h
  | ok a => right; exact ⟨a, rfl, by simpa [bind, Except.bind] using h⟩

theorem mapM_error {α β ε} (f : α → Except ε β) (P : ε → Prop) (hf : ∀ a e, f a = .error e → P e) :
    ∀ (l : List α) (e : ε), l.mapM f = .error e → P e := by
  intro l
  induction l with
  | nil => intro e h; simp [List.mapM_nil, pure, Except.pure] at h
  | cons x xs ih =>
    intro e h
    rw [List.mapM_cons] at h
    rcases bind_error _ _ _ h with h1 | ⟨y, _, h2⟩
    · exact hf _ _ h1
    · rcases bind_error _ _ _ h2 with h3 | ⟨ys, _, h4⟩
      · exact ih _ h3
      · simp [pure, Except.pure] at h4

theorem buildDefault_error (d : Option Bp.DefaultBp) (e : PErr) (h : buildDefault d = .error e) : BuildErr e := by
  unfold buildDefault at h
  split at h <;> try (simp [pure, Except.pure] at h; done)
  split at h
  · simp [pure, Except.pure] at h
  · simp only [throw, throwThe, MonadExceptOf.throw, Except.error.injEq] at h
    exact Or.inr ⟨_, h.symm⟩

theorem buildColumn_error (enums : List Enum) (c : Bp.ColBp) (e : PErr) (h : buildColumn enums c = .error e) :
    BuildErr e := by
  unfold buildColumn at h
  rcases bind_error _ _ _ h with h1 | ⟨d, _, h⟩
  · exact buildDefault_error _ _ h1
  rcases bind_error _ _ _ h with h1 | ⟨ty, _, h⟩
  · simp [resolveType, pure, Except.pure] at h1
  rcases bind_error _ _ _ h with h1 | ⟨n, _, h⟩
  · unfold buildNote at h1; split at h1 <;> simp [pure, Except.pure] at h1
  · simp [pure, Except.pure] at h

theorem buildIndex_error (cols : List Column) (ix : Bp.IdxBp) (e : PErr) (h : buildIndex cols ix = .error e) :
    BuildErr e := by
  unfold buildIndex at h
  rcases bind_error _ _ _ h with h1 | ⟨n, _, h⟩
  · unfold buildNote at h1; split at h1 <;> simp [pure, Except.pure] at h1
  rcases bind_error _ _ _ h with h1 | ⟨ss, _, h⟩
  · refine mapM_error _ BuildErr ?_ _ _ h1
    intro s e hs
    split at hs
    · simp [pure, Except.pure] at hs
    · split at hs
      · simp [pure, Except.pure] at hs
      · simp only [throw, throwThe, MonadExceptOf.throw, Except.error.injEq] at hs
        exact Or.inl ⟨_, hs.symm⟩
  · simp [pure, Except.pure] at h

theorem buildTable_error (enums : List Enum) (t : Bp.TableBp) (e : PErr) (h : buildTable enums t = .error e) :
    BuildErr e := by
  unfold buildTable at h
  rcases bind_error _ _ _ h with h1 | ⟨n, _, h⟩
  · unfold buildNote at h1; split at h1 <;> simp [pure, Except.pure] at h1
  rcases bind_error _ _ _ h with h1 | ⟨cols, _, h⟩
  · exact mapM_error _ BuildErr (fun c e => buildColumn_error enums c e) _ _ h1
  rcases bind_error _ _ _ h with h1 | ⟨idx, _, h⟩
  · exact mapM_error _ BuildErr (fun c e => buildIndex_error cols c e) _ _ h1
  · simp [pure, Except.pure] at h

theorem locateCols_error (t : Table) (cols : Str) (e : PErr) (h : locateCols t cols = .error e) :
    e = .lib "ColumnNotFoundError" := by
  unfold locateCols at h
  refine mapM_error _ (fun e => e = .lib "ColumnNotFoundError") ?_ _ _ h
  intro c e hc
  split at hc
  · simp [pure, Except.pure] at hc
  · simp only [throw, throwThe, MonadExceptOf.throw, Except.error.injEq] at hc
    exact hc.symm

theorem colsAt_error (ts : List Table) (i : Nat) (cols : Str) (e : PErr) (h : colsAt ts i cols = .error e) :
    BuildErr e := by
  unfold colsAt at h
  split at h
  · exact Or.inl ⟨_, locateCols_error _ _ _ h⟩
  · simp only [throw, throwThe, MonadExceptOf.throw, Except.error.injEq] at h
    exact Or.inr ⟨_, h.symm⟩

theorem buildRef_error (db : Db) (r : Bp.RefBp) (e : PErr) (h : buildRef db r = .error e) : BuildErr e := by
  unfold buildRef at h
  cases hA : r.table1 with
  | none => simp [hA, throw, throwThe, MonadExceptOf.throw, bind, Except.bind] at h; exact Or.inl ⟨_, h.symm⟩
  | some tn1 =>
  cases hB : r.table2 with
  | none => simp [hA, hB, throw, throwThe, MonadExceptOf.throw, bind, Except.bind] at h; exact Or.inl ⟨_, h.symm⟩
  | some tn2 =>
  cases hC : r.col1 with
  | none => simp [hA, hB, hC, throw, throwThe, MonadExceptOf.throw, bind, Except.bind] at h; exact Or.inl ⟨_, h.symm⟩
  | some cn1 =>
  cases hD : r.col2 with
  | none => simp [hA, hB, hC, hD, throw, throwThe, MonadExceptOf.throw, bind, Except.bind] at h; exact Or.inl ⟨_, h.symm⟩
  | some cn2 =>
  simp only [hA, hB, hC, hD] at h
  rcases bind_error _ _ _ h with h1 | ⟨t1, _, h⟩
  · exact Or.inl ⟨_, C06.locateTable_error _ _ _ _ h1⟩
  rcases bind_error _ _ _ h with h1 | ⟨c1, _, h⟩
  · exact colsAt_error _ _ _ _ h1
  rcases bind_error _ _ _ h with h1 | ⟨t2, _, h⟩
  · exact Or.inl ⟨_, C06.locateTable_error _ _ _ _ h1⟩
  rcases bind_error _ _ _ h with h1 | ⟨c2, _, h⟩
  · exact colsAt_error _ _ _ _ h1
  · simp [pure, Except.pure] at h

/-- every error of `build_database` is one of the library's own exceptions -/
theorem buildDatabase_error (ap : Bool) (es : List Bp.Elem) (e : PErr)
    (h : buildDatabase ap es = .error e) : BuildErr e := by
  unfold buildDatabase at h
  rcases bind_error _ _ _ h with h1 | ⟨enums, _, h⟩
  · exact C06.foldlM_error enumStep BuildErr
      (fun b a e he => Or.inl ⟨_, C06.enumStep_error b a e he⟩) _ _ _ h1
  rcases bind_error _ _ _ h with h1 | ⟨tables, _, h⟩
  · refine C06.foldlM_error (tableStep enums) BuildErr ?_ _ _ _ h1
    intro b a e he
    unfold tableStep at he
    rcases bind_error _ _ _ he with h2 | ⟨t, _, h2⟩
    · exact buildTable_error _ _ _ h2
    · exact Or.inl ⟨_, C06.addTable_error _ _ _ h2⟩
  rcases bind_error _ _ _ h with h1 | ⟨groups, _, h⟩
  · refine C06.foldlM_error (groupAddStep _) BuildErr ?_ _ _ _ h1
    intro b a e he
    unfold groupAddStep at he
    rcases bind_error _ _ _ he with h2 | ⟨g, _, h2⟩
    · rcases C06.buildGroup_error _ _ _ h2 with h3 | h3 <;> exact Or.inl ⟨_, h3⟩
    · split at h2
      · simp only [throw, throwThe, MonadExceptOf.throw, Except.error.injEq] at h2
        exact Or.inl ⟨_, h2.symm⟩
      · simp [pure, Except.pure] at h2
  rcases bind_error _ _ _ h with h1 | ⟨project, _, h⟩
  · exfalso
    unfold buildProject at h1
    split at h1
    · rcases bind_error _ _ _ h1 with h2 | ⟨n, _, h2⟩
      · unfold buildNote at h2; split at h2 <;> simp [pure, Except.pure] at h2
      · simp [pure, Except.pure] at h2
    · simp [pure, Except.pure] at h1
  rcases bind_error _ _ _ h with h1 | ⟨refs, _, h⟩
  · refine C06.foldlM_error (refStep _) BuildErr ?_ _ _ _ h1
    intro b a e he
    unfold refStep at he
    rcases bind_error _ _ _ he with h2 | ⟨r, _, h2⟩
    · exact buildRef_error _ _ _ h2
    · split at h2
      · simp only [throw, throwThe, MonadExceptOf.throw, Except.error.injEq] at h2
        exact Or.inl ⟨_, h2.symm⟩
      · simp [pure, Except.pure] at h2
  · simp [pure, Except.pure] at h

/-- **C08, parsing, for any input text whatsoever** (model of `PyDBML(text, allow_properties=…)`):
    the outcome is a database, a parse error, `SyntaxError` for a column-less table, one of the
    library's own exceptions - or `ValueError` from `int()` (the known finding, see
    `numberValue_raises_only_long`).  No other class of outcome exists. -/
theorem parse_outcome (ap : Bool) (text : Str) :
    (∃ db, Build.parse ap text = .ok db) ∨ Build.parse ap text = .syntax
    ∨ Build.parse ap text = .err .noColumns
    ∨ Build.parse ap text = .err (.internal .ValueError)
    ∨ ∃ e, Build.parse ap text = .err e ∧ BuildErr e := by
  unfold Build.parse
  cases hp : parseDoc ap (removeBom text) with
  | ok es c =>
    simp only
    cases hb : buildDatabase ap es with
    | ok db => exact Or.inl ⟨db, rfl⟩
    | error e => exact Or.inr (Or.inr (Or.inr (Or.inr ⟨e, rfl, buildDatabase_error _ _ _ hb⟩)))
  | fail => exact Or.inr (Or.inl rfl)
  | fatal => exact Or.inr (Or.inl rfl)
  | exn e =>
    rcases parseDoc_raises _ _ _ hp with h | h
    · subst h; exact Or.inr (Or.inr (Or.inl rfl))
    · subst h; exact Or.inr (Or.inr (Or.inr (Or.inl rfl)))

end C08
end PyDBML
