"""Generator of database specs (the value tree of lean/PyDBMLModel/Model.lean, = `observe.dump_db`
format) and `build`: construction of the real object graph through the public classes.

Modes
  hygienic  names/types/defaults that any SQL/DBML reader can tokenise (oracle-readable)
  wild      adds quotes, braces, blanks, reserved words, non-ASCII, odd defaults (model correspondence)
"""
import sys

sys.path.insert(0, '/repo')

from pydbml.classes import (Column, Enum, EnumItem, Expression, Index, Note, Project,  # noqa: E402
                            Reference, Table, TableGroup)
from pydbml.database import Database  # noqa: E402
from harness.observe import StickyNote  # noqa: E402

IDS = ['id', 'user_id', 'name', 'created_at', 'a', 'b1', 'Order', 'code', 'country', 'qty', 'ref_id', 'k9', 'ID', 'Id', 'Name', 'CODE']
IDS_QUOTED = ['select', 'table', 'note', 'ref', 'x y', 'ü', 'col-1', 'as', 'indexes', 'Enum', 'null', '1st']
IDS_WILD = ['q"uote', "it's", 'br{ace}', 'back\\slash', 'a.b', '{}', '{0}', 'semi;colon', '--dash', 'per%cent', 'x,y']
TYPES = ['int', 'varchar(255)', 'decimal(10, 2)', 'timestamp', 'text[]', 'jsonb', 'bigint', 'varchar', 'schema1.udt']
TYPES_WILD = ['character varying', 'double precision', 'enum(\'a\',\'b\')', 'int {x}']
SCHEMAS = ['public', 'public', 'public', 'sales', 'hr']
ACTIONS = [None, None, 'cascade', 'restrict', 'set null', 'set default', 'no action']
INDEX_TYPES = [None, None, 'btree', 'hash', 'gin', 'gist', 'brin', 'spgist']
NOTES = ['', '', 'a note', "it's quoted", 'two\nlines', 'with "dq"', 'back\\slash', "triple ''' q", 'é日本',
         'line1\n  indented\nline3', 'cont \\\nline', 'para one\n\npara two', 'a\n\n  b\n\n\nc',
         # a sentence-length text: longer than any line a pretty-printer would keep on one line
         'the identifier of the customer this order was placed by, copied from the legacy system when the account was migrated in 2019']
LONG_TEXT = 'a value long enough that a settings list holding it does not fit on one line of a hundred characters, whatever else it holds'
COMMENTS = [None, None, None, 'a comment', 'two\nline comment', "c with 'q'", 'c {brace}', '-- sql', '*/ x']
COLORS = [None, None, '#fff', '#A1B2C3', '#000000']


def pick(rng, pool):
    return pool[rng.randrange(len(pool))]


def gen_name(rng, wild, used=None, pool=None):
    pool = pool or IDS
    for _ in range(50):
        r = rng.random()
        if r < 0.6:
            n = pick(rng, pool)
        elif r < 0.85 or not wild:
            n = pick(rng, IDS_QUOTED)
        else:
            n = pick(rng, IDS_WILD)
        if rng.random() < 0.3:
            n = n + str(rng.randrange(10))
        if used is None or n not in used:
            if used is not None:
                used.add(n)
            return n
    n = 'n%d' % rng.randrange(10 ** 6)
    if used is not None:
        used.add(n)
    return n


def gen_default(rng, wild):
    r = rng.random()
    if r < 0.45:
        return None
    k = rng.randrange(5)
    if k == 0:
        return {'k': 'int', 'v': str(pick(rng, [0, 1, 42, 7, 10 ** 20, 123456789]))}
    if k == 1:
        # also values with many fractional digits (all are the shortest repr of themselves)
        return {'k': 'float', 'v': repr(pick(rng, [1.5, 0.0, 2.25, 100.125, 3.0, 3.14159265358979, 0.123456789012345, 1.00000000000123, 12345.6789012345]))}
    if k == 2:
        return {'k': 'bool', 'v': rng.random() < 0.5}
    if k == 3:
        pool = ['x', 'active', 'a b', '', "it's", 'C:\\dir\\file', 'ends with \\', '^\\d{4}$', 'say "hi"', 'x,y', '[b]', '#tag', '// not a comment'] \
            + (['true', 'NULL', 'a\nb', 'br{ace}'] if wild else [])
        return {'k': 'str', 'v': pick(rng, pool)}
    pool = ['now()', 'a + b', 'gen_random_uuid()', '(a) + (b)', "(now()) + (interval '1 day')", "replace(x, '\\n', ' ')", "E'\\t' || c", '(x)',
            "lower('x')"] + (['multi\nline', '{x}'] if wild else [])
    return {'k': 'expr', 'v': pick(rng, pool)}


def gen_column(rng, wild, used, n_enums):
    r = rng.random()
    if n_enums and r < 0.2:
        typ = {'enum': rng.randrange(n_enums)}
    elif wild and r < 0.3:
        typ = pick(rng, TYPES_WILD)
    else:
        typ = pick(rng, TYPES)
    props = []
    if rng.random() < 0.15:
        props = [[pick(rng, ['pk1', 'label', 'k']), pick(rng, ['v', "it's", 'two words', 'm\nl', LONG_TEXT] if wild else ['v', 'two words', LONG_TEXT])]]
        if rng.random() < 0.3:
            props.append(['zz', 'last'])
    return {
        'name': gen_name(rng, wild, used), 'type': typ,
        'unique': rng.random() < 0.2, 'not_null': rng.random() < 0.3, 'pk': rng.random() < 0.25,
        'autoinc': rng.random() < 0.15, 'default': gen_default(rng, wild),
        'note': pick(rng, NOTES) if rng.random() < 0.3 else '',
        'comment': pick(rng, COMMENTS) if wild or rng.random() < 0.5 else None,
        'props': props,
    }


def gen_index(rng, wild, ncols):
    k = 1 if rng.random() < 0.6 else rng.randint(2, 3)
    subs = []
    for _ in range(k):
        r = rng.random()
        if r < 0.75:
            subs.append({'col': rng.randrange(ncols)})
        elif r < 0.95 or not wild:
            subs.append({'expr': pick(rng, ['lower(name)', 'a*2', 'id + 1', '(lower(a)) || (lower(b))', "split_part(c, '\\n', 1)", '(id)'])})
        else:
            subs.append({'raw': pick(rng, ['rawsubj', '"quoted raw"'])})
    return {
        'subjects': subs,
        'name': pick(rng, [None, None, 'idx_a', 'my index'] + (["i'x"] if wild else [])),
        'unique': rng.random() < 0.3, 'type': pick(rng, INDEX_TYPES), 'pk': rng.random() < 0.15,
        'note': pick(rng, NOTES) if rng.random() < 0.2 else '',
        'comment': pick(rng, COMMENTS) if rng.random() < 0.3 else None,
    }


def add_namesake_case(rng, spec):
    """A table in another schema that shares its bare name with a public table, and - declared inside that other schema - an
    inline reference to the PUBLIC one (which the document may address by its bare name). In place; -> True when added."""
    pub = [i for i, t in enumerate(spec['tables']) if t['schema'] == 'public' and t['columns']]
    if not pub:
        return False
    pi = rng.choice(pub)
    p = spec['tables'][pi]
    sch = rng.choice(['sales', 'hr', 'auth'])
    if any(t['schema'] == sch and t['name'] == p['name'] for t in spec['tables']):
        return False
    plain = lambda n, ty='int': {'name': n, 'type': ty, 'unique': False, 'not_null': False, 'pk': False, 'autoinc': False,  # noqa: E731
                                 'default': None, 'note': '', 'comment': None, 'props': []}
    tab = lambda n, cols: {'name': n, 'schema': sch, 'alias': None, 'columns': cols, 'indexes': [], 'note': '', 'header_color': None,  # noqa: E731
                           'comment': None, 'abstract': False, 'props': []}
    spec['tables'].append(tab(p['name'], [plain(p['columns'][0]['name']), plain('only_in_' + sch)]))
    if rng.random() < 0.6:
        other = 'sessions_%d' % rng.randrange(100)
        if any(t['name'] == other for t in spec['tables']):
            return True
        spec['tables'].append(tab(other, [plain('k'), plain('fk_col')]))
    src = len(spec['tables']) - 1
    spec['refs'].append({'type': rng.choice(['>', '-', '<']), 't1': src, 'col1': [len(spec['tables'][src]['columns']) - 1],
                         't2': pi, 'col2': [0], 'name': None, 'comment': None, 'on_update': None, 'on_delete': None,
                         'inline': rng.random() < 0.8})
    return True


def gen_spec(rng, wild=False, max_tables=5, allow_props=None, refs_wild_comment=False):
    n_enums = rng.choice([0, 0, 1, 2, 3])
    enums = []
    used_e = set()
    for _ in range(n_enums):
        schema = pick(rng, SCHEMAS)
        name = gen_name(rng, wild, None, ['status', 'kind', 'level', 'color'])
        if (schema, name) in used_e:
            continue
        used_e.add((schema, name))
        items = []
        used_i = set()
        for _ in range(rng.randint(1, 4)):
            items.append({'name': gen_name(rng, wild, used_i, ['new', 'done', 'failed', 'in progress', 'x']),
                          'note': pick(rng, NOTES) if rng.random() < 0.25 else '',
                          'comment': pick(rng, COMMENTS) if rng.random() < 0.25 else None})
        enums.append({'name': name, 'schema': schema, 'items': items,
                      'comment': pick(rng, COMMENTS) if rng.random() < 0.3 else None})
    n_tables = rng.randint(1, max_tables)
    tables = []
    used_t = set()
    used_alias = set()
    for _ in range(n_tables):
        schema = pick(rng, SCHEMAS)
        name = gen_name(rng, wild, None, ['users', 'orders', 'items', 'countries', 'merchants', 'products', 't'])
        if (schema, name) in used_t:
            continue
        used_t.add((schema, name))
        used_c = set()
        cols = [gen_column(rng, wild, used_c, len(enums)) for _ in range(rng.randint(1, 5))]
        idx = [gen_index(rng, wild, len(cols)) for _ in range(rng.choice([0, 0, 1, 2, 3]))]
        alias = None
        if rng.random() < 0.25:
            alias = gen_name(rng, False, None, ['u', 'o', 'it', 'c', 'm']) if rng.random() < 0.8 else name   # sometimes its own bare name
            if alias in used_alias or any(alias == f'{s}.{n}' for s, n in used_t):
                alias = None
            else:
                used_alias.add(alias)
        tprops = []
        if rng.random() < 0.15:
            tprops = [['owner', pick(rng, ['team a', 'x'])]]
            # several properties: their order is part of what is declared
            if rng.random() < 0.6:
                tprops.append(['zone', pick(rng, ['eu', 'a b'])])
            if rng.random() < 0.4:
                tprops.insert(0, ['audit', 'yes'])
        tables.append({
            'name': name, 'schema': schema, 'alias': alias, 'columns': cols, 'indexes': idx,
            'note': pick(rng, NOTES) if rng.random() < 0.35 else '',
            'header_color': pick(rng, COLORS), 'comment': pick(rng, COMMENTS) if rng.random() < 0.4 else None,
            'abstract': False, 'props': tprops,
        })
    # alias must not clash with a full name key
    keys = {f"{t['schema']}.{t['name']}" for t in tables}
    for t in tables:
        if t['alias'] in keys:
            t['alias'] = None
    refs = []
    seen = set()
    for _ in range(rng.choice([0, 1, 1, 2, 3, 5])):
        t1 = rng.randrange(len(tables))
        t2 = rng.randrange(len(tables)) if rng.random() < 0.85 else t1
        k = 1 if rng.random() < 0.75 else 2
        n1, n2 = len(tables[t1]['columns']), len(tables[t2]['columns'])
        if k > min(n1, n2):
            k = 1
        c1 = rng.sample(range(n1), k)
        c2 = rng.sample(range(n2), k)
        kind = pick(rng, ['>', '<', '-', '<>'])
        inline = rng.random() < 0.45
        name = pick(rng, [None, None, 'fk_1', 'my_ref'] + (['r name', 'r"q'] if wild else []))
        comment = None
        if rng.random() < 0.25:
            comment = pick(rng, COMMENTS if (wild or refs_wild_comment) else [None, 'a comment', 'two\nline comment'])
        r = {'type': kind, 't1': t1, 'col1': c1, 't2': t2, 'col2': c2, 'name': name, 'comment': comment,
             'on_update': pick(rng, ACTIONS), 'on_delete': pick(rng, ACTIONS), 'inline': inline}
        key = (kind, t1, tuple(c1), t2, tuple(c2), name, comment, r['on_update'], r['on_delete'])
        if key in seen:
            continue
        seen.add(key)
        refs.append(r)
    groups = []
    used_g = set()
    for _ in range(rng.choice([0, 0, 1, 2])):
        items = rng.sample(range(len(tables)), rng.randint(0, len(tables)))
        groups.append({'name': gen_name(rng, wild, used_g, ['g1', 'core', 'billing']), 'items': items,
                       'comment': pick(rng, COMMENTS) if rng.random() < 0.3 else None,
                       'note': pick(rng, NOTES) or None if rng.random() < 0.3 else None,
                       'color': pick(rng, COLORS)})
    sticky = []
    for _ in range(rng.choice([0, 0, 1, 2])):
        sticky.append({'name': gen_name(rng, False, None, ['sn', 'todo', 'n1']), 'text': pick(rng, NOTES)})
    project = None
    if rng.random() < 0.35:
        items = []
        if rng.random() < 0.7:
            items.append(['database_type', 'PostgreSQL'])
        if rng.random() < 0.3:
            items.append(['author', pick(rng, ['me', "o'neil", 'm\nl'] if wild else ['me', 'two words'])])
        project = {'name': gen_name(rng, wild, None, ['proj', 'my project']), 'items': items,
                   'note': pick(rng, NOTES) if rng.random() < 0.5 else '',
                   'comment': pick(rng, COMMENTS) if rng.random() < 0.3 else None}
    if allow_props is None:
        allow_props = rng.random() < 0.5
    return {'tables': tables, 'refs': refs, 'enums': enums, 'groups': groups, 'sticky': sticky,
            'project': project, 'allow_properties': allow_props}


def mk_default(d):
    if d is None:
        return None
    k, v = d['k'], d['v']
    if k == 'int':
        return int(v)
    if k == 'float':
        return float(v)
    if k == 'bool':
        return bool(v)
    if k == 'str':
        return v
    return Expression(v)


def build(spec, **db_kwargs):
    """Build the real object graph through the public classes. Returns (db, handles)."""
    db = Database(allow_properties=spec.get('allow_properties', False), **db_kwargs)
    shared_notes = {}
    enums = []
    for e in spec['enums']:
        obj = Enum(e['name'], [EnumItem(i['name'], note=i['note'] or None, comment=i.get('comment'))
                               for i in e['items']], schema=e['schema'], comment=e.get('comment'))
        db.add(obj)
        enums.append(obj)
    tables = []
    for t in spec['tables']:
        tb = Table(t['name'], schema=t['schema'], alias=t['alias'], note=t['note'] or None,
                   header_color=t['header_color'], comment=t.get('comment'), abstract=t.get('abstract', False),
                   properties=dict(map(tuple, t['props'])) if t['props'] else None)
        for c in t['columns']:
            typ = c['type']
            if isinstance(typ, dict):
                typ = enums[typ['enum']] if 'enum' in typ else Enum(typ['name'], [], schema=typ['schema'])
            # one Note OBJECT may be handed to several columns (the text is what counts, not whose note it was last)
            col = Column(c['name'], typ, unique=c['unique'], not_null=c['not_null'], pk=c['pk'],
                         autoinc=c['autoinc'], default=mk_default(c['default']),
                         note=c['note'] or None, comment=c.get('comment'),
                         properties=dict(map(tuple, c['props'])) if c['props'] else None)
            if c['note']:
                if c['note'] in shared_notes and (len(c['note']) + len(t['columns'])) % 2 == 0:
                    col.note = shared_notes[c['note']]       # assigned after construction: the very same object
                else:
                    shared_notes.setdefault(c['note'], col.note)
            tb.add_column(col)
        for ix in t['indexes']:
            subs = []
            for s in ix['subjects']:
                if 'col' in s:
                    subs.append(tb.columns[s['col']])
                elif 'expr' in s:
                    subs.append(Expression(s['expr']))
                else:
                    subs.append(s['raw'])
            tb.add_index(Index(subs, name=ix['name'], unique=ix['unique'], type=ix['type'], pk=ix['pk'],
                               note=ix['note'] or None, comment=ix.get('comment')))
        db.add(tb)
        tables.append(tb)
    refs = []
    for r in spec['refs']:
        obj = Reference(r['type'], [tables[r['t1']].columns[i] for i in r['col1']],
                        [tables[r['t2']].columns[i] for i in r['col2']], name=r['name'],
                        comment=r.get('comment'), on_update=r['on_update'], on_delete=r['on_delete'],
                        inline=r['inline'])
        db.add(obj)
        refs.append(obj)
    groups = []
    for g in spec['groups']:
        obj = TableGroup(g['name'], [tables[i] for i in g['items']], comment=g.get('comment'),
                         note=Note(g['note']) if g['note'] else None, color=g['color'])
        db.add(obj)
        groups.append(obj)
    for s in spec['sticky']:
        db.add(StickyNote(s['name'], s['text']))
    if spec['project'] is not None:
        p = spec['project']
        db.add(Project(p['name'], items=dict(map(tuple, p['items'])), note=p['note'] or None,
                       comment=p.get('comment')))
    return db, {'tables': tables, 'enums': enums, 'refs': refs, 'groups': groups}


def features(spec):
    """Feature vector used to count distinct non-trivial cases."""
    f = set()
    for t in spec['tables']:
        if t['schema'] != 'public':
            f.add('schema')
        if t['alias']:
            f.add('alias')
        if t['note']:
            f.add('tnote')
        if t['indexes']:
            f.add('index')
        if sum(c['pk'] for c in t['columns']) > 1:
            f.add('compositepk')
        for c in t['columns']:
            if isinstance(c['type'], dict):
                f.add('enumtype')
            if c['default'] is not None:
                f.add('default:' + c['default']['k'])
            if c['note']:
                f.add('cnote')
            for k in ('unique', 'not_null', 'pk', 'autoinc'):
                if c[k]:
                    f.add(k)
        for ix in t['indexes']:
            if ix['pk']:
                f.add('pkindex')
            if len(ix['subjects']) > 1:
                f.add('compositeindex')
    for r in spec['refs']:
        f.add('ref' + r['type'])
        if r['inline']:
            f.add('inline')
        if len(r['col1']) > 1:
            f.add('compositeref')
        if r['name']:
            f.add('refname')
        if r['on_update'] or r['on_delete']:
            f.add('actions')
    if spec['enums']:
        f.add('enum')
    if spec['groups']:
        f.add('group')
    if spec['project']:
        f.add('project')
    if spec['sticky']:
        f.add('sticky')
    return sorted(f)
