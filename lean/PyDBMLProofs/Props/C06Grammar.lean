/-
C06 (column-less table) and C08 (index subjects): what every table blueprint the grammar model
produces looks like, for ANY input text.
-/
import PyDBMLProofs.Hoare
namespace PyDBML
namespace C06
open Lex Grammar Hoare Bp

def IdxBpOK (ix : IdxBp) : Prop := ix.subjects ≠ []

def TableBpOK (tb : TableBp) : Prop :=
  tb.columns ≠ [] ∧ ∀ ixs, tb.indexes = some ixs → ∀ ix ∈ ixs, IdxBpOK ix

def ElemOK : Elem → Prop
  | .table tb => TableBpOK tb
  | _ => True

theorem post_singleIndex : Post singleIndex (fun c => c.subjects ≠ []) := by
  unfold singleIndex
  exact post_bind' (fun s => post_bind' (fun c1 => post_bind' (fun st => post_pure _ (by simp))))

theorem post_compositeIndex : Post compositeIndex (fun c => c.subjects ≠ []) := by
  unfold compositeIndex
  exact post_bind' (fun _ => post_bind' (fun s => post_bind' (fun ss => post_bind' (fun _ =>
    post_bind' (fun c1 => post_bind' (fun st => post_pure _ (by simp)))))))

theorem post_indexRule : Post indexRule IdxBpOK := by
  unfold indexRule
  refine post_bind' (fun before => post_bind (post_orLongest post_singleIndex post_compositeIndex)
    (fun core hcore => post_bind' (fun c3 => post_pure _ ?_)))
  exact hcore

theorem post_indexesRule : Post indexesRule (fun is => ∀ ix ∈ is, IdxBpOK ix) := by
  unfold indexesRule
  refine post_bind' (fun _ => post_bind' (fun _ => post_cut (post_bind' (fun _ =>
    post_bind (post_many1 post_indexRule) (fun is his => post_bind' (fun _ => post_bind' (fun _ =>
      post_pure _ his.2)))))))

def TblElemOK (e : TblElem) : Prop := ∀ is, e = .indexes is → ∀ ix ∈ is, IdxBpOK ix

theorem post_tableElement (props : Bool) : Post (tableElement props) TblElemOK := by
  unfold tableElement
  refine post_bind' (fun _ => post_bind (R := TblElemOK) ?_ (fun r hr => post_bind' (fun _ => post_pure r hr)))
  refine post_alt (post_bind' (fun c => post_pure _ (by intro is h; cases h))) ?_
  refine post_alt (post_bind' (fun c => post_pure _ (by intro is h; cases h))) ?_
  refine post_alt (post_bind post_indexesRule (fun is his => post_pure _ (by intro is' h; cases h; exact his))) ?_
  split
  · refine post_bind' (fun kv => ?_)
    obtain ⟨k, v⟩ := kv
    exact post_pure _ (by intro is h; cases h)
  · exact post_pfail

/-- **a table blueprint always has a column**, and every index in it has a subject -/
theorem post_tableRule (props : Bool) : Post (tableRule props) TableBpOK := by
  unfold tableRule
  refine post_bind' (fun before => post_bind' (fun _ => post_bind' (fun sn => ?_)))
  obtain ⟨schema, nm⟩ := sn
  refine post_bind' (fun al => post_bind' (fun st => post_bind' (fun _ => post_bind' (fun _ => post_cut ?_))))
  refine post_bind (post_manyF (post_tableElement props)) (fun els hels => post_bind' (fun _ =>
    post_bind' (fun _ => post_bind' (fun _ => ?_))))
  dsimp only
  split
  · exact post_pexn _
  · rename_i hne
    refine post_pure _ ⟨?_, ?_⟩
    · intro h
      apply hne
      simp only at h
      rw [h]; rfl
    · intro ixs hixs ix hix
      simp only at hixs
      -- the first `indexes` block among the elements
      have : TblElem.indexes ixs ∈ els := by
        have hm := List.mem_of_mem_head? hixs
        obtain ⟨x, hx, hxe⟩ := List.mem_filterMap.mp hm
        cases x <;> simp at hxe
        subst hxe; exact hx
      exact hels _ this ixs rfl ix hix

theorem post_element (props : Bool) : Post (element props) ElemOK := by
  unfold element
  refine post_alt (post_bind (post_tableRule props) (fun t ht => post_pure _ ht)) ?_
  refine post_alt (post_bind' (fun r => post_pure _ trivial)) ?_
  refine post_alt (post_bind' (fun r => post_pure _ trivial)) ?_
  refine post_alt (post_bind' (fun r => post_pure _ trivial)) ?_
  exact post_alt (post_bind' (fun r => post_pure _ trivial)) (post_bind' (fun r => post_pure _ trivial))

theorem post_document (props : Bool) : Post (document props) (fun es => ∀ e ∈ es, ElemOK e) := by
  unfold document
  exact post_bind (post_manyF (post_element props)) (fun es hes => post_bind' (fun _ => post_bind' (fun _ =>
    post_pure _ hes)))

/-- **C06, for any text**: no table without columns ever leaves the grammar (such a declaration ends in the
    `SyntaxError` of `parse_table`, see `tableRule`), and no index without a subject. -/
theorem parseDoc_tables_ok (props : Bool) (text : Str) (es : List Elem) (c : Cur)
    (h : parseDoc props text = .ok es c) :
    ∀ tb, Elem.table tb ∈ es → tb.columns ≠ [] ∧ ∀ ixs, tb.indexes = some ixs → ∀ ix ∈ ixs, ix.subjects ≠ [] := by
  intro tb htb
  exact post_document props _ _ _ h (.table tb) htb

end C06
end PyDBML
