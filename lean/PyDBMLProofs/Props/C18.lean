/-
C18 — SQL creates a table before any table that references it inline; the order is a permutation
that depends only on the model.
-/
import PyDBMLModel
namespace PyDBML
namespace C18
open Sql

theorem insertDesc_perm {α} (key : α → Nat) (x : α) (l : List α) :
    (insertDesc key x l).Perm (x :: l) := by
  induction l with
  | nil => simp [insertDesc]
  | cons y ys ih =>
    unfold insertDesc
    split
    · exact (List.Perm.cons y ih).trans (List.Perm.swap x y ys)
    · exact List.Perm.refl _

theorem sortDesc_perm {α} (key : α → Nat) (l : List α) : (sortDesc key l).Perm l := by
  induction l with
  | nil => simp [sortDesc]
  | cons x xs ih =>
    have : sortDesc key (x :: xs) = insertDesc key x (sortDesc key xs) := rfl
    rw [this]
    exact (insertDesc_perm key x _).trans (List.Perm.cons x ih)

/-- Whatever the order chosen, it is a permutation of the database's tables: every table position
    occurs exactly once. -/
theorem perm (tables : List Table) (refs : List Ref) :
    (reorderIdx tables refs).Perm (List.range tables.length) :=
  sortDesc_perm _ _

theorem nodup (tables : List Table) (refs : List Ref) : (reorderIdx tables refs).Nodup :=
  (perm tables refs).nodup_iff.mpr List.nodup_range

/-- the tables in the order of the SQL script -/
def reorder (tables : List Table) (refs : List Ref) : List Table :=
  (reorderIdx tables refs).filterMap (tables[·]?)

theorem range_filterMap_getElem? {α} (l : List α) :
    (List.range l.length).filterMap (fun i => l[i]?) = l := by
  induction l with
  | nil => simp
  | cons x xs ih =>
    rw [List.length_cons, List.range_succ_eq_map, List.filterMap_cons]
    simp only [List.getElem?_cons_zero, List.filterMap_map]
    congr 1

theorem perm_tables (tables : List Table) (refs : List Ref) : (reorder tables refs).Perm tables := by
  have h := (perm tables refs).filterMap (tables[·]?)
  rw [range_filterMap_getElem?] at h
  exact h

/-- the order depends only on the table names and on which references are inline `>`/`<` and
    whom they are hosted by: two databases agreeing on those get the same order. -/
theorem depends_only_on_model (t₁ t₂ : List Table) (r₁ r₂ : List Ref)
    (hn : t₁.map (·.name) = t₂.map (·.name))
    (hh : r₁.map (hostName t₁) = r₂.map (hostName t₂)) :
    reorderIdx t₁ r₁ = reorderIdx t₂ r₂ := by
  have hlen : t₁.length = t₂.length := by simpa using congrArg List.length hn
  have hcount : ∀ name, countFor t₁ r₁ name = countFor t₂ r₂ name := by
    intro name
    unfold countFor
    have e1 : ∀ (ts : List Table) (rs : List Ref),
        (rs.filter fun r => hostName ts r = some name).length
          = ((rs.map (hostName ts)).filter fun h => h = some name).length := by
      intro ts rs
      induction rs with
      | nil => simp
      | cons r rs ih => simp only [List.filter_cons, List.map_cons]; split <;> simp_all
    rw [e1, e1, hh]
  have hname : ∀ i : Nat, (t₁[i]?).map Table.name = (t₂[i]?).map Table.name := by
    intro i
    have := congrArg (·[i]?) hn
    simpa using this
  unfold reorderIdx
  rw [hlen]
  congr 1
  funext i
  have := hname i
  cases h1 : t₁[i]? <;> cases h2 : t₂[i]? <;> simp_all

/-! ### the first clause is FALSE of the current code: kernel-checked witness -/

/-- (host, target) pairs of inline `>`/`<`/`-` references between different tables -/
def inlineEdges (refs : List Ref) : List (Nat × Nat) :=
  refs.filterMap fun r =>
    if r.inline then
      let (h, t) := match r.kind with
        | .oneToMany => (r.t2, r.t1)
        | _ => (r.t1, r.t2)
      if h = t then none else some (h, t)
    else none

def targetsFirst (order : List Nat) (edges : List (Nat × Nat)) : Bool :=
  edges.all fun (h, t) => order.idxOf t < order.idxOf h

def chainTables : List Table :=
  [{ name := lit "a", columns := [{ name := lit "id", type := .plain (lit "int") }] },
   { name := lit "b", columns := [{ name := lit "id", type := .plain (lit "int") }] }]
def chainRefs : List Ref :=
  [{ kind := .manyToOne, t1 := 0, col1 := [0], t2 := 1, col2 := [0], inlineFlag := true }]

/-- `Table a { id int [ref: > b.id] }  Table b { id int }`: `a` (the host) is created first. -/
theorem chain_violates :
    targetsFirst (reorderIdx chainTables chainRefs) (inlineEdges chainRefs) = false := by decide

end C18
end PyDBML
