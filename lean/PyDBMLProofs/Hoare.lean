/-
A small program logic for the parser monad `P` of `Lex.lean`:

* `Raises E p`  — whenever `p` ends with a Python exception out of a parse action (`Res.exn e`), `E e`;
* `Post p Q`    — whenever `p` succeeds with a value `a`, `Q a`.

Both are closed under every combinator of the grammar model; the primitives never raise.
-/
import PyDBMLModel
namespace PyDBML
namespace Hoare
open Lex Grammar

class Raises {α : Type} (E : PErr → Prop) (p : P α) : Prop where
  out : ∀ c e, p c = .exn e → E e

variable {α β : Type} {E : PErr → Prop}

/-! ### combinators -/

instance raises_pure (a : α) : Raises E (pure a : P α) := ⟨by intro c e h; cases h⟩
instance raises_ppure (a : α) : Raises E (ppure a : P α) := ⟨by intro c e h; cases h⟩
instance raises_pfail : Raises E (pfail : P α) := ⟨by intro c e h; cases h⟩

theorem raises_pexn (e : PErr) (h : E e) : Raises E (pexn e : P α) :=
  ⟨by intro c e' h'; simp only [pexn, Res.exn.injEq] at h'; subst h'; exact h⟩

theorem raises_bind (p : P α) (f : α → P β) (hp : Raises E p) (hf : ∀ a, Raises E (f a)) :
    Raises E (p >>= f) := by
  constructor
  intro c e h
  simp only [bind, pbind] at h
  cases hpc : p c with
  | ok a c' => rw [hpc] at h; exact (hf a).out _ _ h
  | fail => rw [hpc] at h; cases h
  | fatal => rw [hpc] at h; cases h
  | exn e' => rw [hpc] at h; simp only [Res.exn.injEq] at h; subst h; exact hp.out _ _ hpc

instance raises_bind_inst (p : P α) (f : α → P β) [hp : Raises E p] [hf : ∀ a, Raises E (f a)] :
    Raises E (p >>= f) := raises_bind p f hp hf

theorem raises_alt (p q : P α) (hp : Raises E p) (hq : Raises E q) : Raises E (alt p q) := by
  constructor
  intro c e h
  simp only [alt] at h
  cases hpc : p c with
  | ok a c' => rw [hpc] at h; cases h
  | fail => rw [hpc] at h; exact hq.out _ _ h
  | fatal => rw [hpc] at h; cases h
  | exn e' => rw [hpc] at h; simp only [Res.exn.injEq] at h; subst h; exact hp.out _ _ hpc

instance raises_alt_inst (p q : P α) [hp : Raises E p] [hq : Raises E q] : Raises E (alt p q) :=
  raises_alt p q hp hq

theorem raises_cut (p : P α) (hp : Raises E p) : Raises E (cut p) := by
  constructor
  intro c e h
  simp only [cut] at h
  cases hpc : p c with
  | ok a c' => rw [hpc] at h; cases h
  | fail => rw [hpc] at h; cases h
  | fatal => rw [hpc] at h; cases h
  | exn e' => rw [hpc] at h; simp only [Res.exn.injEq] at h; subst h; exact hp.out _ _ hpc

instance raises_cut_inst (p : P α) [hp : Raises E p] : Raises E (cut p) := raises_cut p hp

theorem raises_opt (p : P α) (hp : Raises E p) : Raises E (opt p) := by
  constructor
  intro c e h
  simp only [opt] at h
  cases hpc : p c with
  | ok a c' => rw [hpc] at h; cases h
  | fail => rw [hpc] at h; cases h
  | fatal => rw [hpc] at h; cases h
  | exn e' => rw [hpc] at h; simp only [Res.exn.injEq] at h; subst h; exact hp.out _ _ hpc

instance raises_opt_inst (p : P α) [hp : Raises E p] : Raises E (opt p) := raises_opt p hp

theorem raises_many (p : P α) (hp : Raises E p) (n : Nat) : Raises E (many p n) := by
  constructor
  induction n with
  | zero => intro c e h; simp only [many] at h; cases h
  | succ n ih =>
    intro c e h
    simp only [many] at h
    cases hpc : p c with
    | ok a c' =>
      rw [hpc] at h
      simp only at h
      split at h
      · cases h
      · cases hm : many p n c' with
        | ok as c'' => rw [hm] at h; cases h
        | fail => rw [hm] at h; cases h
        | fatal => rw [hm] at h; cases h
        | exn e' => rw [hm] at h; simp only [Res.exn.injEq] at h; subst h; exact ih _ _ hm
    | fail => rw [hpc] at h; cases h
    | fatal => rw [hpc] at h; cases h
    | exn e' => rw [hpc] at h; simp only [Res.exn.injEq] at h; subst h; exact hp.out _ _ hpc

instance raises_many_inst (p : P α) [hp : Raises E p] (n : Nat) : Raises E (many p n) := raises_many p hp n

theorem raises_manyF (p : P α) (hp : Raises E p) : Raises E (manyF p) :=
  ⟨fun c e h => (raises_many p hp (fuelOf c)).out c e h⟩

instance raises_manyF_inst (p : P α) [hp : Raises E p] : Raises E (manyF p) := raises_manyF p hp

instance raises_many1_inst (p : P α) [hp : Raises E p] : Raises E (many1 p) := by
  unfold many1; infer_instance

theorem raises_orLongest (p q : P α) (hp : Raises E p) (hq : Raises E q) : Raises E (orLongest p q) := by
  constructor
  intro c e h
  simp only [orLongest] at h
  cases hpc : p c <;> cases hqc : q c <;> rw [hpc, hqc] at h <;> simp only at h <;>
    first
    | (simp only [Res.exn.injEq] at h; subst h; first | exact hp.out _ _ hpc | exact hq.out _ _ hqc)
    | (split at h <;> cases h)
    | cases h

instance raises_orLongest_inst (p q : P α) [hp : Raises E p] [hq : Raises E q] : Raises E (orLongest p q) :=
  raises_orLongest p q hp hq

/-- running a parser from the whitespace-skipped position -/
theorem raises_skipWs (p : P α) (hp : Raises E p) : Raises E (fun c => p (skipWs c)) :=
  ⟨fun c e h => hp.out _ _ h⟩

instance raises_skipWs_inst (p : P α) [hp : Raises E p] : Raises E (fun c => p (skipWs c)) :=
  raises_skipWs p hp

instance raises_ite (b : Prop) [Decidable b] (p q : P α) [hp : Raises E p] [hq : Raises E q] :
    Raises E (if b then p else q) := by
  split <;> assumption

/-! ### primitives: none of them raises -/

macro "prim_tac" : tactic =>
  `(tactic| (constructor; intro c e h; (try dsimp only at h); (repeat' split at h) <;> cases h))

instance (s : Str) : Raises E (litRaw s) := by unfold litRaw; prim_tac
instance (s : String) : Raises E (sym s) := by unfold sym litRaw; prim_tac
instance (s : String) : Raises E (clit s) := by unfold clit; prim_tac
instance (s : String) : Raises E (ckw s) := by unfold ckw; prim_tac
instance (p : Char → Bool) : Raises E (wordRaw p) := by unfold wordRaw; prim_tac
instance (p : Char → Bool) : Raises E (word p) := by unfold word wordRaw; prim_tac
instance : Raises E lineEnd := by unfold lineEnd; prim_tac
instance : Raises E stringEnd := by unfold stringEnd; prim_tac
instance : Raises E wordStart := by unfold wordStart; prim_tac
instance : Raises E wordEnd := by unfold wordEnd; prim_tac
instance : Raises E name := by unfold name; prim_tac
instance : Raises E stringLiteral := by unfold stringLiteral; prim_tac
instance : Raises E expressionLiteral := by unfold expressionLiteral; prim_tac
instance : Raises E numberLiteral := by unfold numberLiteral; prim_tac
instance : Raises E relation := by unfold relation; prim_tac
instance : Raises E hexColor := by unfold hexColor; prim_tac
instance : Raises E comment := by unfold comment; prim_tac
instance : Raises E white := by unfold white; prim_tac

/-! ### postconditions -/

/-- every successful result of `p` satisfies `Q` -/
def Post {α : Type} (p : P α) (Q : α → Prop) : Prop := ∀ c a c', p c = .ok a c' → Q a

theorem post_true (p : P α) : Post p (fun _ => True) := fun _ _ _ _ => trivial

theorem post_weaken {p : P α} {Q R : α → Prop} (h : Post p Q) (hq : ∀ a, Q a → R a) : Post p R :=
  fun c a c' hp => hq a (h c a c' hp)

theorem post_pure {Q : α → Prop} (a : α) (h : Q a) : Post (pure a : P α) Q := by
  intro c b c' hp
  simp only [pure, ppure, Res.ok.injEq] at hp
  rw [← hp.1]; exact h

theorem post_pexn {Q : α → Prop} (e : PErr) : Post (pexn e : P α) Q := by
  intro c b c' hp; cases hp

theorem post_pfail {Q : α → Prop} : Post (pfail : P α) Q := by
  intro c b c' hp; cases hp

theorem post_bind {p : P α} {f : α → P β} {R : α → Prop} {Q : β → Prop}
    (hp : Post p R) (hf : ∀ a, R a → Post (f a) Q) : Post (p >>= f) Q := by
  intro c b c' h
  simp only [bind, pbind] at h
  cases hpc : p c with
  | ok a c1 => rw [hpc] at h; exact hf a (hp _ _ _ hpc) _ _ _ h
  | fail => rw [hpc] at h; cases h
  | fatal => rw [hpc] at h; cases h
  | exn e => rw [hpc] at h; cases h

theorem post_bind' {p : P α} {f : α → P β} {Q : β → Prop} (hf : ∀ a, Post (f a) Q) : Post (p >>= f) Q :=
  post_bind (post_true p) (fun a _ => hf a)

theorem post_alt {p q : P α} {Q : α → Prop} (hp : Post p Q) (hq : Post q Q) : Post (alt p q) Q := by
  intro c b c' h
  simp only [alt] at h
  cases hpc : p c with
  | ok a c1 => rw [hpc] at h; simp only [Res.ok.injEq] at h; rw [← h.1]; exact hp _ _ _ hpc
  | fail => rw [hpc] at h; exact hq _ _ _ h
  | fatal => rw [hpc] at h; cases h
  | exn e => rw [hpc] at h; cases h

theorem post_cut {p : P α} {Q : α → Prop} (hp : Post p Q) : Post (cut p) Q := by
  intro c b c' h
  simp only [cut] at h
  cases hpc : p c with
  | ok a c1 => rw [hpc] at h; simp only [Res.ok.injEq] at h; rw [← h.1]; exact hp _ _ _ hpc
  | fail => rw [hpc] at h; cases h
  | fatal => rw [hpc] at h; cases h
  | exn e => rw [hpc] at h; cases h

theorem post_opt {p : P α} {Q : α → Prop} (hp : Post p Q) : Post (opt p) (fun o => ∀ a, o = some a → Q a) := by
  intro c b c' h
  simp only [opt] at h
  cases hpc : p c with
  | ok a c1 =>
    rw [hpc] at h; simp only [Res.ok.injEq] at h
    intro x hx; rw [← h.1] at hx; cases hx; exact hp _ _ _ hpc
  | fail => rw [hpc] at h; simp only [Res.ok.injEq] at h; intro x hx; rw [← h.1] at hx; cases hx
  | fatal => rw [hpc] at h; cases h
  | exn e => rw [hpc] at h; cases h

theorem post_many {p : P α} {Q : α → Prop} (hp : Post p Q) (n : Nat) :
    Post (many p n) (fun l => ∀ a ∈ l, Q a) := by
  induction n with
  | zero =>
    intro c b c' h
    simp only [many, Res.ok.injEq] at h
    rw [← h.1]; simp
  | succ n ih =>
    intro c b c' h
    simp only [many] at h
    cases hpc : p c with
    | ok a c1 =>
      rw [hpc] at h
      simp only at h
      have ha := hp _ _ _ hpc
      split at h
      · simp only [Res.ok.injEq] at h; rw [← h.1]; simpa using ha
      · cases hm : many p n c1 with
        | ok as c2 =>
          rw [hm] at h; simp only [Res.ok.injEq] at h; rw [← h.1]
          intro x hx
          rcases List.mem_cons.mp hx with rfl | hx
          · exact ha
          · exact ih _ _ _ hm x hx
        | fail => rw [hm] at h; simp only [Res.ok.injEq] at h; rw [← h.1]; simpa using ha
        | fatal => rw [hm] at h; cases h
        | exn e => rw [hm] at h; cases h
    | fail => rw [hpc] at h; simp only [Res.ok.injEq] at h; rw [← h.1]; simp
    | fatal => rw [hpc] at h; cases h
    | exn e => rw [hpc] at h; cases h

theorem post_manyF {p : P α} {Q : α → Prop} (hp : Post p Q) : Post (manyF p) (fun l => ∀ a ∈ l, Q a) :=
  fun c b c' h => post_many hp (fuelOf c) c b c' h

theorem post_many1 {p : P α} {Q : α → Prop} (hp : Post p Q) :
    Post (many1 p) (fun l => l ≠ [] ∧ ∀ a ∈ l, Q a) := by
  unfold many1
  refine post_bind hp (fun a ha => post_bind (post_manyF hp) (fun as has => post_pure _ ⟨by simp, ?_⟩))
  intro x hx
  rcases List.mem_cons.mp hx with rfl | hx
  · exact ha
  · exact has x hx

theorem post_orLongest {p q : P α} {Q : α → Prop} (hp : Post p Q) (hq : Post q Q) : Post (orLongest p q) Q := by
  intro c b c' h
  simp only [orLongest] at h
  cases hpc : p c <;> cases hqc : q c <;> rw [hpc, hqc] at h <;> simp only at h <;>
    first
    | (simp only [Res.ok.injEq] at h; rw [← h.1]; first | exact hp _ _ _ hpc | exact hq _ _ _ hqc)
    | (split at h <;> simp only [Res.ok.injEq] at h <;> rw [← h.1] <;> first | exact hp _ _ _ hpc | exact hq _ _ _ hqc)
    | cases h

end Hoare
end PyDBML
