"""C03 — SQL DDL states exactly the model: types, tables, columns, keys, indexes, notes."""
from harness import core
from harness.props import sqlcommon as SC

PID = 'C03'
THEOREMS = ['PyDBML.C03.script_structure', 'PyDBML.C03.column_pk_component', 'PyDBML.C03.default_component', 'PyDBML.C15.sql_column_ignores_props']
MODULES = ['PyDBMLProofs.Props.C03']


def kf_replay(f):
    from harness import gen_db as GD, sql_oracle as SO
    spec = f['witness']['spec']
    db, _ = GD.build(spec)
    res = SO.check_sql(spec, db.sql)['C03']
    return any(r[2] == f['reason'] for r in res)


def main(tier, seed):
    ctx = core.Ctx(PID, tier, seed, 'translation_validation', THEOREMS, MODULES)
    problems = SC.run_sql_check(ctx, PID)
    return ctx.finish(
        rule='random databases without references (1-6 tables in up to 3 schemas, 1-5 columns with the full product of flags, '
             '5 default kinds incl. falsy ones, enum-typed columns, 0-3 indexes incl. pk/composite/expression, notes, comments); '
             'every third spec wild (quotes, braces, blanks in names). Non-trivial: >=1 table and >=2 features; distinct by dump hash',
        explanation='Correspondence of db.sql and of every enum/column/index element rendering with the Lean model of the '
                    'default SQL renderer; oracle: db.sql read back by an independent tokenising DDL reader and compared with '
                    'expectations computed from the content (types, tables exactly once, columns, keys, indexes, COMMENT ON).',
        assumptions=['oracle runs on reader-hygienic specs (names without double quote, simple types/defaults)'],
        trusted_base=['Lean 4.33 kernel', 'hand-written model PyDBMLModel/RenderSql.lean tied by this correspondence',
                      'harness/ddl_reader.py', 'harness/sql_oracle.py'],
        kf_replay=kf_replay, proof_problems=problems)


def replay(path):
    return SC.replay_sql(path, PID)
