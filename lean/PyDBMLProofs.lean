import PyDBMLProofs.Props.C05
import PyDBMLProofs.Props.C07
import PyDBMLProofs.Props.C12
import PyDBMLProofs.Props.C13
import PyDBMLProofs.Props.C14
import PyDBMLProofs.Props.C16
import PyDBMLProofs.Props.C17
import PyDBMLProofs.Props.C18
