/-
C17 — inconsistent models are refused at render time (decision logic stated outright).
-/
import PyDBMLModel
namespace PyDBML
namespace C17
open Dispatch

/-- an element lacking a required attribute is refused by the default SQL renderer — attached to a
    database configured with the default renderers or detached. -/
theorem required_unset_refused (k : EKind) (attached : Bool) (unset : List String) (a : String)
    (ha : a ∈ requiredAttrs k) (hu : a ∈ unset) :
    renderOutcome true .defaultR k attached unset = .attributeMissing := by
  have : (requiredAttrs k).any (unset.contains ·) = true := by
    rw [List.any_eq_true]
    exact ⟨a, ha, by simpa using hu⟩
  unfold renderOutcome
  cases rendererFor k attached <;> simp <;> intro hh <;> exact absurd hu (hh a ha)

/-- …and only then: with every required attribute set the default renderer renders (a detached
    table is the one exception: its SQL needs the database's references). -/
theorem complete_renders (k : EKind) (attached : Bool) (unset : List String)
    (h : ∀ a ∈ requiredAttrs k, a ∉ unset) (ht : k ≠ .table ∨ attached = true) :
    renderOutcome true .defaultR k attached unset = .defaultText := by
  have : (requiredAttrs k).any (unset.contains ·) = false := by
    rw [List.any_eq_false]
    intro a ha
    simpa using h a ha
  unfold renderOutcome
  rcases ht with ht | ht <;> cases rendererFor k attached <;> simp [ht] <;> exact h

/-- the required attributes named in the statement -/
example : requiredAttrs .table = ["name", "schema"] ∧ requiredAttrs .column = ["name", "type"]
    ∧ "table" ∈ requiredAttrs .index ∧ "schema" ∈ requiredAttrs .enum ∧ requiredAttrs .enumItem = ["name"] := by
  decide

theorem detached_endpoint_sql (m2m : Bool) (a b : Side) (h : none ∈ a ++ b) :
    refSql m2m a b = .tableNotFound := by
  have : anyDetached a b = true := by
    unfold anyDetached
    rw [List.any_eq_true]
    exact ⟨none, h, rfl⟩
  simp [refSql, this]

theorem detached_endpoint_dbml (inline : Bool) (a b : Side) (h : none ∈ a ++ b) :
    refDbml inline a b = .tableNotFound := by
  have : anyDetached a b = true := by
    unfold anyDetached
    rw [List.any_eq_true]
    exact ⟨none, h, rfl⟩
  simp [refDbml, this]

/-- one side mixes columns of different tables (first side: its head `t` and some other `u ≠ t`) -/
def Mixed (s : Side) : Prop := ∃ t rest u, s = t :: rest ∧ u ∈ rest ∧ u ≠ t

theorem sideMixed_of_mixed (s : Side) (h : Mixed s) : sideMixed s = some true := by
  obtain ⟨t, rest, u, rfl, hu, hne⟩ := h
  simp only [sideMixed]
  congr 1
  rw [List.any_eq_true]
  exact ⟨u, hu, by simpa using hne⟩

/-- asking a reference for its tables when one side mixes tables raises the DBML error
    (both sides non-empty, which the constructor's callers guarantee). -/
theorem mixed_side_tables (a b : Side) (ha : a ≠ []) (hb : b ≠ []) (h : Mixed a ∨ Mixed b) :
    tableProp a b = .dbmlError := by
  unfold tableProp validate
  rcases h with h | h
  · rw [sideMixed_of_mixed a h]
  · cases hsa : sideMixed a with
    | none => cases a <;> simp_all [sideMixed]
    | some m =>
      cases m
      · simp [sideMixed_of_mixed b h]
      · rfl

theorem mixed_side_dbml (a b : Side) (ha : a ≠ []) (hb : b ≠ []) (hd : anyDetached a b = false)
    (h : Mixed a ∨ Mixed b) : refDbml false a b = .dbmlError := by
  have := mixed_side_tables a b ha hb h
  simp [refDbml, hd]
  exact this

/-- a composite reference cannot be rendered inline in DBML -/
theorem composite_inline_dbml (a b : Side) (hd : anyDetached a b = false) (h : b.length > 1) :
    refDbml true a b = .dbmlError := by
  simp [refDbml, hd, h]

theorem detached_get_refs :
    tableGetRefs false = .unknownDatabase ∧ (∀ d, columnGetRefs false d = .tableNotFound)
    ∧ columnGetRefs true false = .unknownDatabase := by
  refine ⟨rfl, ?_, rfl⟩
  intro d; rfl

-- hypotheses are satisfiable, and the recorded observation: a mixed side is NOT refused in SQL
example : Mixed [some 0, some 1] := ⟨some 0, [some 1], some 1, rfl, by simp, by decide⟩
example : refSql false [some 0, some 1] [some 2] = .ok := by decide

end C17
end PyDBML
