/-
C09, one level down — a table's column and index lists stay consistent with the owner back-pointers under any
sequence of `add_column`, `delete_column`, `add_index`, `delete_index` (by object or by position), a refused
operation changes nothing, and an index over a column the table does not hold is refused.
Model: `PyDBMLModel/TableCont.lean`.
-/
import PyDBMLProofs.Props.C09
namespace PyDBML
namespace C09T
open TCont
open C09 (Linked getElem?_modify')

def cFlag (s : St) (i : Nat) : Option Bool := (s.C[i]?).map fun c => c.owner == Owner.this
def iFlag (s : St) (i : Nat) : Option Bool := (s.I[i]?).map (·.attached)

/-- the table-level invariant: the lists hold no object twice, a column's `table` is this table exactly when the
    column is in `columns`, an index's `table` is set exactly when it is in `indexes` -/
structure Inv (s : St) : Prop where
  cols : Linked s.cols (cFlag s)
  idxs : Linked s.idxs (iFlag s)

theorem cFlag_setOwner (s : St) (i : Nat) (o : Owner) (j : Nat) :
    cFlag (setOwner s i o) j = if j = i then (cFlag s j).map (fun _ => o == Owner.this) else cFlag s j := by
  unfold cFlag setOwner
  simp only [getElem?_modify']
  by_cases h : j = i
  · simp only [h, ↓reduceIte]; cases s.C[i]? <;> rfl
  · simp only [h, ↓reduceIte]

theorem iFlag_setAttached (s : St) (i : Nat) (b : Bool) (j : Nat) :
    iFlag (setAttached s i b) j = if j = i then (iFlag s j).map (fun _ => b) else iFlag s j := by
  unfold iFlag setAttached
  simp only [getElem?_modify']
  by_cases h : j = i
  · simp only [h, ↓reduceIte]; cases s.I[i]? <;> rfl
  · simp only [h, ↓reduceIte]

theorem iFlag_setOwner (s : St) (i : Nat) (o : Owner) (j : Nat) : iFlag (setOwner s i o) j = iFlag s j := rfl
theorem cFlag_setAttached (s : St) (i : Nat) (b : Bool) (j : Nat) : cFlag (setAttached s i b) j = cFlag s j := rfl

theorem colIndex_some {s : St} {i k : Nat} (h : colIndex s i = some k) :
    ∃ m, s.cols[k]? = some m ∧ (m = i ∨ cEq s i m = true) ∧ ∀ k' (hk' : k' < k) (hl : k' < s.cols.length),
      s.cols[k'] ≠ i ∧ cEq s i s.cols[k'] = false := by
  unfold colIndex at h
  obtain ⟨hk, hp, hbefore⟩ := List.findIdx?_eq_some_iff_getElem.mp h
  refine ⟨s.cols[k], List.getElem?_eq_getElem hk, ?_, ?_⟩
  · simp only [Bool.or_eq_true, beq_iff_eq] at hp; exact hp
  · intro k' hk' hl
    have := hbefore k' hk'
    simp only [Bool.or_eq_true, beq_iff_eq, not_or, Bool.not_eq_true] at this
    exact this

theorem idxIndex_some {s : St} {i k : Nat} (h : idxIndex s i = some k) :
    ∃ m, s.idxs[k]? = some m ∧ (m = i ∨ iEq s i m = true) := by
  unfold idxIndex at h
  obtain ⟨hk, hp, _⟩ := List.findIdx?_eq_some_iff_getElem.mp h
  refine ⟨s.idxs[k], List.getElem?_eq_getElem hk, ?_⟩
  simp only [Bool.or_eq_true, beq_iff_eq] at hp; exact hp

/-! ### one step -/

theorem del_col (s : St) (k m : Nat) (h : Inv s) (hk : s.cols[k]? = some m) :
    Inv { setOwner s m Owner.none with cols := s.cols.eraseIdx k } := by
  refine ⟨?_, ?_⟩
  · refine Linked.del h.cols hk ?_
    intro j
    show cFlag (setOwner s m Owner.none) j = _
    rw [cFlag_setOwner]
    by_cases hj : j = m
    · simp only [hj, ↓reduceIte]; cases cFlag s m <;> rfl
    · simp only [hj, ↓reduceIte]
  · exact Linked.congr h.idxs (fun j => rfl)

theorem del_idx (s : St) (k m : Nat) (h : Inv s) (hk : s.idxs[k]? = some m) :
    Inv { setAttached s m false with idxs := s.idxs.eraseIdx k } := by
  refine ⟨Linked.congr h.cols (fun j => rfl), ?_⟩
  refine Linked.del h.idxs hk ?_
  intro j
  show iFlag (setAttached s m false) j = _
  rw [iFlag_setAttached]

theorem step_inv (s : St) (op : Op) (h : Inv s) : Inv (step s op).1 := by
  cases op with
  | addColumn i =>
    simp only [step]
    cases hc : s.C[i]? with
    | none => simpa using h
    | some c =>
      simp only
      by_cases ho : c.owner = Owner.none
      · have hflag : cFlag s i = some false := by simp [cFlag, hc, ho]
        have hni : i ∉ s.cols := fun hm => by
          have := (h.cols.2 i).mpr hm
          rw [hflag] at this; cases this
        have key : Inv { setOwner s i Owner.this with cols := s.cols ++ [i] } := by
          refine ⟨?_, Linked.congr h.idxs (fun j => rfl)⟩
          refine Linked.add h.cols hni ?_
          intro j
          show cFlag (setOwner s i Owner.this) j = _
          rw [cFlag_setOwner]
          by_cases hj : j = i
          · simp [hj, hflag]
          · simp [hj]
        simpa [ho] using key
      · have : (c.owner != Owner.none) = true := by simpa using ho
        simpa [this] using h
  | deleteColumnPos k =>
    simp only [step]
    cases hk : s.cols[k]? with
    | none => simpa using h
    | some m => simpa using del_col s k m h hk
  | deleteColumnObj i =>
    simp only [step]
    split
    · exact h
    · cases hci : colIndex s i with
      | none => simpa using h
      | some k =>
        simp only
        cases hk : s.cols[k]? with
        | none => simpa using h
        | some m => simpa using del_col s k m h hk
  | newIndex subs cls =>
    simp only [step]
    have hlen : ∀ j, j ∈ s.idxs → j < s.I.length := by
      intro j hj
      have := (h.idxs.2 j).mpr hj
      unfold iFlag at this
      cases hq : s.I[j]? with
      | none => rw [hq] at this; cases this
      | some x =>
        rcases Nat.lt_or_ge j s.I.length with hl | hl
        · exact hl
        · rw [List.getElem?_eq_none hl] at hq; cases hq
    have hnew : s.I.length ∉ s.idxs := fun hm => Nat.lt_irrefl _ (hlen _ hm)
    have hf1 : ∀ j, iFlag { s with I := s.I ++ [{ subjects := subs, cls := cls }] } j
        = if j = s.I.length then some false else iFlag s j := by
      intro j
      unfold iFlag
      simp only
      rcases Nat.lt_trichotomy j s.I.length with hl | he | hg
      · rw [List.getElem?_append_left hl]; simp [Nat.ne_of_lt hl]
      · subst he; simp
      · have h1 : ¬ j = s.I.length := Nat.ne_of_gt hg
        rw [List.getElem?_eq_none (by simp; omega), List.getElem?_eq_none (by omega)]; simp [h1]
    have kOk : Inv { setAttached { s with I := s.I ++ [{ subjects := subs, cls := cls }] } s.I.length true with
        idxs := s.idxs ++ [s.I.length] } := by
      refine ⟨Linked.congr h.cols (fun j => rfl), ?_⟩
      refine Linked.add h.idxs hnew ?_
      intro j
      show iFlag (setAttached _ s.I.length true) j = _
      rw [iFlag_setAttached, hf1]
      by_cases hj : j = s.I.length
      · simp [hj]
      · simp [hj]
    have kNo : Inv { s with I := s.I ++ [{ subjects := subs, cls := cls }] } := by
      refine ⟨Linked.congr h.cols (fun j => rfl), h.idxs.1, ?_⟩
      intro j
      rw [hf1]
      by_cases hj : j = s.I.length
      · subst hj; simp [hnew]
      · simp only [hj, ↓reduceIte]; exact h.idxs.2 j
    split
    · simpa using kOk
    · simpa using kNo
  | deleteIndexPos k =>
    simp only [step]
    cases hk : s.idxs[k]? with
    | none => simpa using h
    | some m => simpa using del_idx s k m h hk
  | deleteIndexObj i =>
    simp only [step]
    split
    · exact h
    · cases hci : idxIndex s i with
      | none => simpa using h
      | some k =>
        simp only
        cases hk : s.idxs[k]? with
        | none => simpa using h
        | some m => simpa using del_idx s k m h hk

/-- **every reachable state of a table is consistent** -/
theorem reach_inv (s : St) (ops : List Op) (h : Inv s) : Inv (run s ops) := by
  unfold run
  induction ops generalizing s with
  | nil => exact h
  | cons op rest ih => exact ih _ (step_inv s op h)

/-- a fresh table over a universe of columns none of which says it belongs to this table -/
theorem init_inv (C : List CObj) (hC : ∀ c ∈ C, c.owner ≠ Owner.this) : Inv { C := C } := by
  refine ⟨⟨List.nodup_nil, ?_⟩, ⟨List.nodup_nil, ?_⟩⟩
  · intro i
    simp only [cFlag, List.not_mem_nil, iff_false]
    cases hq : C[i]? with
    | none => simp
    | some c =>
      have := hC c (List.mem_of_getElem? hq)
      simp [this]
  · intro i; simp [iFlag]

/-! ### what a step does -/

/-- a refused `delete_*` leaves the table exactly as it was -/
theorem rejected_unchanged (s : St) (op : Op) (hop : ∀ subs cls, op ≠ Op.newIndex subs cls)
    (h : (step s op).2 ≠ Outcome.ok) : (step s op).1 = s := by
  cases op with
  | newIndex subs cls => exact absurd rfl (hop subs cls)
  | addColumn i =>
    simp only [step] at h ⊢
    cases hc : s.C[i]? with
    | none => rfl
    | some c => simp only [hc] at h ⊢; split <;> simp_all
  | deleteColumnPos k =>
    simp only [step] at h ⊢
    cases hk : s.cols[k]? with
    | none => rfl
    | some m => simp [hk] at h
  | deleteColumnObj i =>
    simp only [step] at h ⊢
    split
    · rfl
    · rename_i hi
      simp only [hi, ↓reduceIte] at h
      cases hci : colIndex s i with
      | none => rfl
      | some k =>
        simp only [hci] at h ⊢
        cases hk : s.cols[k]? with
        | none => rfl
        | some m => simp [hk] at h
  | deleteIndexPos k =>
    simp only [step] at h ⊢
    cases hk : s.idxs[k]? with
    | none => rfl
    | some m => simp [hk] at h
  | deleteIndexObj i =>
    simp only [step] at h ⊢
    split
    · rfl
    · rename_i hi
      simp only [hi, ↓reduceIte] at h
      cases hci : idxIndex s i with
      | none => rfl
      | some k =>
        simp only [hci] at h ⊢
        cases hk : s.idxs[k]? with
        | none => rfl
        | some m => simp [hk] at h

/-- **an index over a column the table does not hold is refused**, and the refusal leaves the table's lists and every
    column as they were; the refused index is not attached -/
theorem foreign_index_refused (s : St) (subs : List Subj) (cls : Nat) (i : Nat) (hi : Subj.col i ∈ subs)
    (hown : ∀ c, s.C[i]? = some c → c.owner ≠ Owner.this) :
    (step s (.newIndex subs cls)).2 = Outcome.notFound
      ∧ (step s (.newIndex subs cls)).1.cols = s.cols ∧ (step s (.newIndex subs cls)).1.idxs = s.idxs
      ∧ (step s (.newIndex subs cls)).1.C = s.C
      ∧ iFlag (step s (.newIndex subs cls)).1 s.I.length = some false := by
  have hno : subjectsOwn s subs = false := by
    unfold subjectsOwn
    rw [List.all_eq_false]
    refine ⟨Subj.col i, hi, ?_⟩
    cases hq : s.C[i]? with
    | none => simp [hq]
    | some c => simpa [hq] using hown c hq
  simp only [step, hno, Bool.false_eq_true, ↓reduceIte, true_and]
  simp [iFlag]

/-- an accepted index has only columns of this table (and expressions) as subjects -/
theorem accepted_index_subjects (s : St) (h : Inv s) (subs : List Subj) (cls : Nat)
    (hok : (step s (.newIndex subs cls)).2 = Outcome.ok) : ∀ i, Subj.col i ∈ subs → i ∈ s.cols := by
  intro i hi
  have hown : subjectsOwn s subs = true := by
    cases hq : subjectsOwn s subs with
    | true => rfl
    | false => simp [step, hq] at hok
  unfold subjectsOwn at hown
  have := List.all_eq_true.mp hown (Subj.col i) hi
  apply (h.cols.2 i).mp
  unfold cFlag
  cases hq : s.C[i]? with
  | none => simp [hq] at this
  | some c => simpa [hq] using this

/-- the column list is "added and not deleted, in insertion order": an accepted `add_column` appends the column, an
    accepted `delete_column(obj)` removes the FIRST member that is the argument or equals it, `delete_column(k)` the
    k-th, and nothing else ever changes the list -/
theorem cols_step (s : St) (op : Op) :
    (step s op).1.cols = s.cols
    ∨ (∃ i, op = .addColumn i ∧ (step s op).1.cols = s.cols ++ [i])
    ∨ (∃ k m, s.cols[k]? = some m ∧ (step s op).1.cols = s.cols.eraseIdx k
        ∧ (op = .deleteColumnPos k ∨ ∃ i, op = .deleteColumnObj i ∧ (m = i ∨ cEq s i m = true)
            ∧ ∀ k' (_ : k' < k) (hl : k' < s.cols.length), s.cols[k'] ≠ i ∧ cEq s i s.cols[k'] = false)) := by
  cases op with
  | addColumn i =>
    simp only [step]
    cases hc : s.C[i]? with
    | none => exact Or.inl rfl
    | some c =>
      simp only
      split
      · exact Or.inl rfl
      · exact Or.inr (Or.inl ⟨i, rfl, rfl⟩)
  | deleteColumnPos k =>
    simp only [step]
    cases hk : s.cols[k]? with
    | none => exact Or.inl rfl
    | some m => exact Or.inr (Or.inr ⟨k, m, hk, rfl, Or.inl rfl⟩)
  | deleteColumnObj i =>
    simp only [step]
    split
    · exact Or.inl rfl
    · cases hci : colIndex s i with
      | none => exact Or.inl rfl
      | some k =>
        obtain ⟨m, hm, heq, hfirst⟩ := colIndex_some hci
        simp only [hm]
        exact Or.inr (Or.inr ⟨k, m, hm, rfl, Or.inr ⟨i, rfl, heq, hfirst⟩⟩)
  | newIndex subs cls =>
    simp only [step]
    split <;> exact Or.inl rfl
  | deleteIndexPos k =>
    simp only [step]
    cases hk : s.idxs[k]? with
    | none => exact Or.inl rfl
    | some m => exact Or.inl rfl
  | deleteIndexObj i =>
    simp only [step]
    split
    · exact Or.inl rfl
    · cases hci : idxIndex s i with
      | none => exact Or.inl rfl
      | some k =>
        simp only
        cases hk : s.idxs[k]? with
        | none => exact Or.inl rfl
        | some m => exact Or.inl rfl

/-- non-vacuity: the universe the harness uses (two look-alike columns, a column of another table) -/
example : Inv { C := [{ cls := 0 }, { cls := 1 }, { cls := 0 }, { cls := 2 }, { cls := 9, owner := .other }] } :=
  init_inv _ (by intro c hc; simp at hc; rcases hc with rfl | rfl | rfl | rfl | rfl <;> decide)

end C09T
end PyDBML
