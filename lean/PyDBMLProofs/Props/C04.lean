/-
C04 — every relationship becomes exactly one correctly directed FOREIGN KEY in SQL.
(structure of the model's rendering: where each reference is rendered, and in which direction)
-/
import PyDBMLModel
import PyDBMLProofs.Props.C16
namespace PyDBML
namespace C04
open Sql

/-- the table that holds the key: the left-hand table for `>` and `-`, the right-hand one for `<` -/
def keyHolder (r : Ref) : Nat :=
  match r.kind with
  | .oneToMany => r.t2
  | _ => r.t1

/-- direction: `>` and `-` put the foreign key on the left columns referencing the right ones … -/
theorem direction_left (r : Ref) (h : r.kind = .manyToOne ∨ r.kind = .oneToOne) :
    refSides r = ((r.t1, r.col1), (r.t2, r.col2)) := by
  rcases h with h | h <;> simp [refSides, h]

/-- … `<` puts it on the right columns referencing the left ones; column order is kept on both sides -/
theorem direction_right (r : Ref) (h : r.kind = .oneToMany) :
    refSides r = ((r.t2, r.col2), (r.t1, r.col1)) := by
  simp [refSides, h]

theorem source_is_keyHolder (r : Ref) (h : r.kind ≠ .manyToMany) : (refSides r).1.1 = keyHolder r := by
  cases hk : r.kind <;> simp_all [refSides, keyHolder]

/-- a reference name becomes `CONSTRAINT "name" `, and only then -/
theorem constraint_iff_name (r : Ref) :
    constraintText r = (if truthy r.name then lit "CONSTRAINT \"" ++ r.name.getD [] ++ lit "\" " else []) := rfl

/-- actions become ON UPDATE / ON DELETE clauses (upper-cased), and only when set -/
theorem actions_iff_set (r : Ref) :
    onClauses r =
      (if truthy r.onUpdate then lit " ON UPDATE " ++ upperAscii (r.onUpdate.getD []) else [])
      ++ (if truthy r.onDelete then lit " ON DELETE " ++ upperAscii (r.onDelete.getD []) else []) := rfl

/-- An inline reference is rendered inside the CREATE TABLE of exactly one table — its key holder — … -/
theorem inline_site (db : Db) (ti : Nat) (t : Table) (ht : t.abstract = false) (r : Ref) :
    r ∈ inlineRefsFor db ti t ↔ r ∈ db.refs ∧ r.inline = true ∧ r.kind ≠ .manyToMany ∧ keyHolder r = ti := by
  unfold inlineRefsFor
  simp only [ht, Bool.false_eq_true, ↓reduceIte, List.mem_filter]
  constructor
  · rintro ⟨hm, hc⟩
    cases hk : r.kind <;> simp_all [keyHolder]
  · rintro ⟨hm, hi, hk, hh⟩
    refine ⟨hm, ?_⟩
    cases hk' : r.kind <;> simp_all [keyHolder]

/-- … as many times as it is in the database, and nowhere else … -/
theorem inline_count (db : Db) (ti : Nat) (t : Table) (ht : t.abstract = false) (r : Ref)
    (hi : r.inline = true) (hk : r.kind ≠ .manyToMany) :
    (inlineRefsFor db ti t).count r = if keyHolder r = ti then db.refs.count r else 0 := by
  by_cases hh : keyHolder r = ti
  · simp only [hh, ↓reduceIte]
    unfold inlineRefsFor
    simp only [ht, Bool.false_eq_true, ↓reduceIte]
    apply List.count_filter
    cases hk' : r.kind <;> simp_all [keyHolder]
  · simp only [hh, ↓reduceIte]
    rw [List.count_eq_zero]
    intro hm
    exact hh ((inline_site db ti t ht r).mp hm).2.2.2

/-- … and never also as an ALTER TABLE statement; a non-inline reference is rendered at top level
    (ALTER TABLE / join table) exactly as many times as it is in the database and in no CREATE TABLE. -/
theorem never_both (db : Db) (r : Ref) :
    (r.inline = true → r ∉ db.refs.filter (!·.inline))
    ∧ (r.inline = false → (db.refs.filter (!·.inline)).count r = db.refs.count r
        ∧ ∀ ti t, r ∉ inlineRefsFor db ti t) := by
  refine ⟨?_, ?_⟩
  · intro hi hm
    simp [List.mem_filter, hi] at hm
  · intro hi
    refine ⟨?_, ?_⟩
    · apply List.count_filter
      simp [hi]
    · intro ti t hm
      unfold inlineRefsFor at hm
      split at hm
      · simp at hm
      · simp [List.mem_filter, hi] at hm

/-- a many-to-many reference is never inline -/
theorem m2m_never_inline (r : Ref) (h : r.kind = .manyToMany) : r.inline = false := by
  simp [Ref.inline, h]

end C04
end PyDBML
