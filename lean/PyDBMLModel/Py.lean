/-
L0: the Python `str` primitives PyDBML relies on, over `List Char`.
Python `str` = sequence of code points; Lean `Char` = Unicode scalar value (lone surrogates are
outside the model).  Every function here is validated against CPython by the `text` correspondence
(`harness/props/c13.py`), the per-character tables over the whole BMP.
-/
namespace PyDBML

abbrev Str := List Char

def lit (x : String) : Str := x.toList

/-- `str.isspace()` for one character == what `re`'s `\s` matches on `str` patterns
    (`Py_UNICODE_ISSPACE`). -/
def isSpaceChar (c : Char) : Bool :=
  let n := c.toNat
  (9 ≤ n && n ≤ 13) || (28 ≤ n && n ≤ 32) || n == 0x85 || n == 0xA0 || n == 0x1680 ||
  (0x2000 ≤ n && n ≤ 0x200A) || n == 0x2028 || n == 0x2029 || n == 0x202F || n == 0x205F ||
  n == 0x3000

/-- `s.isspace()`: non-empty and all characters whitespace. -/
def isSpaceStr (s : Str) : Bool := !s.isEmpty && s.all isSpaceChar

/-- `str.split('\n')` (always ≥ 1 piece). -/
def splitNL : Str → List Str
  | [] => [[]]
  | c :: r =>
    if c = '\n' then [] :: splitNL r
    else match splitNL r with
      | [] => [[c]]            -- unreachable: splitNL never returns []
      | l :: ls => (c :: l) :: ls

/-- `'\n'.join(lines)`. -/
def joinNL : List Str → Str
  | [] => []
  | [l] => l
  | l :: ls => l ++ '\n' :: joinNL ls

/-- `sep.join(parts)`. -/
def joinWith (sep : Str) : List Str → Str
  | [] => []
  | [l] => l
  | l :: ls => l ++ sep ++ joinWith sep ls

/-- Line boundaries of `str.splitlines()`. -/
def isLineBreak (c : Char) : Bool :=
  let n := c.toNat
  n == 10 || n == 11 || n == 12 || n == 13 || n == 0x1c || n == 0x1d || n == 0x1e || n == 0x85 ||
  n == 0x2028 || n == 0x2029

/-- `str.splitlines(keepends=True)` (CR LF is one boundary); `cur` is the current line, reversed. -/
def splitLinesKeepAux : Str → Str → List Str
  | cur, [] => if cur.isEmpty then [] else [cur.reverse]
  | cur, '\r' :: '\n' :: r => ('\n' :: '\r' :: cur).reverse :: splitLinesKeepAux [] r
  | cur, c :: r =>
    if isLineBreak c then (c :: cur).reverse :: splitLinesKeepAux [] r
    else splitLinesKeepAux (c :: cur) r

def splitLinesKeep (s : Str) : List Str := splitLinesKeepAux [] s

/-- `textwrap.indent(text, prefix)`: prefix every line that is not whitespace-only. -/
def textwrapIndent (prefix_ : Str) (text : Str) : Str :=
  (splitLinesKeep text).flatMap fun line =>
    if line.all isSpaceChar then line else prefix_ ++ line

/-- `s.replace(a, b)` for a one-character needle. -/
def replaceChar (a : Char) (b : Str) (s : Str) : Str :=
  s.flatMap fun c => if c = a then b else [c]

/-- `s.lstrip(chars)` / `s.rstrip(chars)` / `s.strip(chars)` for an explicit character set. -/
def lstripSet (p : Char → Bool) (s : Str) : Str := s.dropWhile p
def rstripSet (p : Char → Bool) (s : Str) : Str := (s.reverse.dropWhile p).reverse
def stripSet (p : Char → Bool) (s : Str) : Str := rstripSet p (lstripSet p s)

def asciiLower (c : Char) : Char :=
  if 'A' ≤ c ∧ c ≤ 'Z' then Char.ofNat (c.toNat + 32) else c
def asciiUpper (c : Char) : Char :=
  if 'a' ≤ c ∧ c ≤ 'z' then Char.ofNat (c.toNat - 32) else c
/-- `str.lower()` / `str.upper()` restricted to ASCII input (callers guarantee or report
    `outOfModel`). -/
def lowerAscii (s : Str) : Str := s.map asciiLower
def upperAscii (s : Str) : Str := s.map asciiUpper

def isAscii (s : Str) : Bool := s.all fun c => c.toNat < 128

/-- `needle in s`. -/
def containsChar (c : Char) (s : Str) : Bool := s.any (· == c)

/-- decimal rendering of a natural number (`str(int)`). -/
def natToStr (n : Nat) : Str := (toString n).toList

end PyDBML
