"""The domain of the DBML round trip (DESIGN 5.3): `reasons(dump)` names why a database content is
outside the set of values on which parse(render(db)) == db is claimed (empty = inside)."""
import re

from harness import sites as S

BARE = re.compile(r'^[A-Za-z0-9_]+$')
TYPE_OK = re.compile(r'^[A-Za-z0-9_]+(\[\]|\.[A-Za-z0-9_]+)?$')
HEX = re.compile(r'^#([0-9a-fA-F]{3}|[0-9a-fA-F]{6})$')
ACTIONS = {'no action', 'restrict', 'cascade', 'set null', 'set default'}
INDEX_TYPES = {'brin', 'btree', 'gin', 'gist', 'hash', 'spgist'}
COL_SETTING_KW = ('not null', 'null', 'primary key', 'pk', 'unique', 'increment', 'note', 'ref', 'default')


# values DBML has no syntax for (or that the parser itself never produces): outside the statement of C02
OUTSIDE_STATEMENT = {'NotNormal', 'NotPrintable', 'IndexTypeCase', 'ActionCase', 'NegativeNumber', 'ExprBacktick',
                     'NameNeedsEscape', 'PropsHidden', 'TypeShadowsEnum', 'Abstract', 'DetachedEnum', 'RawSubject',
                     'EmptyIndex', 'EmptyEnum', 'NoColumns', 'ColorShape', 'CompositeInline'}


def name_ok(n):
    return isinstance(n, str) and n != '' and not any(c in n for c in '"\n\r\\\t') and all(c.isprintable() for c in n)


def type_ok(t):
    """types the renderer can emit unquoted and the grammar reads back as the same string"""
    if TYPE_OK.match(t):
        return True
    m = re.match(r'^([A-Za-z0-9_]+)\((.*)\)$', t, re.S)
    if not m:
        return False
    args = m.group(2)
    depth = 0
    for ch in args:
        if ch == '(':
            depth += 1
        elif ch == ')':
            depth -= 1
            if depth < 0:
                return False
        elif not (ch.isascii() and (ch.isalnum() or ch in "\"'`,._+- \n")):
            return False
    return depth == 0 and args.strip(' ') == args and args != '' and ';' not in args and not args.endswith(',')


def float_ok(v):
    return re.match(r'^[0-9]+\.[0-9]+$', v) is not None


def text_reason(site, t):
    r = S.site_reason(site, t)
    return r


def reasons(d):
    out = set()

    def note(site, t):
        if t:
            r = text_reason(site, t)
            if r:
                out.add(r)
    def comment(c, column=False):
        if c:
            if column:
                out.add('ColumnCommentPlacement')
            if any(l[:1] in (' ', '\t') for l in c.split('\n')):
                out.add('CommentLeadingBlank')
            if not all(ch == '\n' or ch.isprintable() for ch in c):
                out.add('NotPrintable')
    for t in d['tables']:
        comment(t.get('comment'))
        for c in t['columns']:
            comment(c.get('comment'), column=True)
        for ix in t['indexes']:
            comment(ix.get('comment'))
    for e in d['enums']:
        comment(e.get('comment'))
        for i in e['items']:
            comment(i.get('comment'))
    for r in d['refs']:
        comment(r.get('comment'))
        if r.get('comment') and eff_inline(r):
            out.add('InlineRefLosesSettings')
    for g in d['groups']:
        comment(g.get('comment'))
    if d['project'] is not None:
        comment(d['project'].get('comment'))
    names = set()
    bare_names = [t['name'] for t in d['tables']]
    keys = set()
    for t in d['tables']:
        for n in (t['name'], t['schema']):
            if not name_ok(n):
                out.add('NameNeedsEscape')
        if t['alias'] is not None and not name_ok(t['alias']):
            out.add('NameNeedsEscape')
        if t['alias'] is not None and any(u is not t and u['name'] == t['alias'] for u in d['tables']):
            out.add('AliasShadow')      # shadows ANOTHER table's bare name (its own bare name is harmless)
        if not t['columns']:
            out.add('NoColumns')
        if t.get('abstract'):
            out.add('Abstract')
        if t['header_color'] is not None and not HEX.match(t['header_color']):
            out.add('ColorShape')
        note('table_note', t['note'])
        if t['props'] and not d['allow_properties']:
            out.add('PropsHidden')
        for k, v in t['props']:
            if not BARE.match(k):
                out.add('NeedsQuoting')
            elif k.lower().startswith('note') or k.lower().startswith('indexes'):
                out.add('PropKeyKwPrefix')
            note('table_prop', v)
        cnames = [c['name'] for c in t['columns']]
        if len(set(cnames)) != len(cnames):
            out.add('DuplicateColumnName')
        for c in t['columns']:
            if not name_ok(c['name']):
                out.add('NameNeedsEscape')
            if isinstance(c['type'], dict):
                if 'enum' not in c['type']:
                    out.add('DetachedEnum')
            else:
                if not type_ok(c['type']):
                    out.add('TypeNeedsQuoting')
                parts = c['type'].split('.')
                sch, nm = (parts if len(parts) == 2 else ('public', c['type']))
                if any(e['schema'] == sch and e['name'] == nm for e in d['enums']):
                    out.add('TypeShadowsEnum')
            dv = c['default']
            if dv is not None:
                k, v = dv['k'], dv['v']
                if (k == 'int' and v == '0') or (k == 'float' and v in ('0.0', '-0.0')) or (k == 'bool' and v is False) \
                        or (k == 'str' and v == ''):
                    out.add('FalsyDefault')
                if k in ('int', 'float') and v.startswith('-'):
                    out.add('NegativeNumber')
                if k == 'float' and not v.startswith('-') and not float_ok(v):
                    out.add('FloatRepr')
                if k == 'str' and v != '':
                    r = text_reason('str_default', v)
                    if r and not (v == 'NULL' and r == 'StringLooksLikeLiteral'):
                        out.add(r)
                if k == 'expr' and ('`' in v or not all(ch == '\n' or ch.isprintable() for ch in v)):
                    out.add('ExprBacktick')
                if k == 'expr' and '\n' in v:
                    out.add('MultilineExpr')
            note('column_note', c['note'])
            if c['props'] and not d['allow_properties']:
                out.add('PropsHidden')
            for k, v in c['props']:
                if not BARE.match(k):
                    out.add('NeedsQuoting')
                elif any(k.upper().startswith(w.upper()) for w in COL_SETTING_KW):
                    out.add('PropKeyKwPrefix')
                note('column_prop', v)
        for ix in t['indexes']:
            if not ix['subjects']:
                out.add('EmptyIndex')
            for s in ix['subjects']:
                if 'raw' in s:
                    out.add('RawSubject')
                elif 'col' in s:
                    if not BARE.match(t['columns'][s['col']]['name']):
                        out.add('NeedsQuoting')
                elif '`' in s['expr'] or not all(ch == '\n' or ch.isprintable() for ch in s['expr']):
                    out.add('ExprBacktick')
                if 'expr' in s and '\n' in s['expr']:
                    out.add('MultilineExpr')
            if ix['name']:
                r = text_reason('index_name', ix['name'])
                if r:
                    out.add(r)
            if ix['type'] is not None and ix['type'] not in INDEX_TYPES:
                out.add('IndexTypeCase')
            note('index_note', ix['note'])
    for e in d['enums']:
        if not name_ok(e['name']) or not name_ok(e['schema']):
            out.add('NameNeedsEscape')
        if not e['items']:
            out.add('EmptyEnum')
        for i in e['items']:
            if not name_ok(i['name']):
                out.add('NameNeedsEscape')
            note('enum_item_note', i['note'])
    # references: canonical order is inline ones in table/column order, then the others
    order = []
    for ti, t in enumerate(d['tables']):
        for ci in range(len(t['columns'])):
            for j, r in enumerate(d['refs']):
                if eff_inline(r) and r['t1'] == ti and ci in r['col1'][:1]:
                    order.append(j)
    order += [j for j, r in enumerate(d['refs']) if not eff_inline(r)]
    if order != list(range(len(d['refs']))):
        out.add('RefOrderNotCanonical')
    for r in d['refs']:
        if r['name'] is not None and not BARE.match(r['name']):
            out.add('NeedsQuoting')
        for a in (r['on_update'], r['on_delete']):
            if a is not None and a not in ACTIONS:
                out.add('ActionCase')
        if eff_inline(r):
            if len(r['col2']) > 1 or len(r['col1']) > 1:
                out.add('CompositeInline')
            if r['name'] or r['on_update'] or r['on_delete']:
                out.add('InlineRefLosesSettings')
    for g in d['groups']:
        if not name_ok(g['name']):
            out.add('NameNeedsEscape')
        if g['color'] is not None and not HEX.match(g['color']):
            out.add('ColorShape')
        if g['note']:
            note('group_note', g['note'])
    for s in d['sticky']:
        if not BARE.match(s['name']):
            out.add('NeedsQuoting')
        r = text_reason('sticky', s['text'])
        if r:
            out.add(r)
    p = d['project']
    if p is not None:
        if not name_ok(p['name']):
            out.add('NameNeedsEscape')
        note('project_note', p['note'])
        for k, v in p['items']:
            if not BARE.match(k):
                out.add('NeedsQuoting')
            elif k.lower() == 'note':
                out.add('PropKeyKwPrefix')
            r = text_reason('project_item', v)
            if r:
                out.add(r)
    return out


def eff_inline(r):
    return bool(r['inline']) and r['type'] != '<>'


def canon(d):
    """content as compared by C02: comments dropped, effective inline-ness, empty group note = none"""
    import copy
    from harness import observe as O
    d = O.strip_comments(copy.deepcopy(d))
    for r in d['refs']:
        r['inline'] = eff_inline(r)
    for g in d['groups']:
        g['note'] = g['note'] or None
    for t in d['tables']:
        for ix in t['indexes']:
            ix['name'] = ix['name'] or None
    return d
