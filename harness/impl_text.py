"""Implementation side of the `text` correspondence: the documented text helpers of PyDBML."""
import sys
import textwrap

sys.path.insert(0, '/repo')

import pydbml.tools as T  # noqa: E402
from pydbml.classes import Note  # noqa: E402


def _get(modname, fn):
    try:
        mod = __import__(modname, fromlist=[fn])
        return getattr(mod, fn, None)
    except Exception:  # noqa: BLE001
        return None


_dbml_utils = 'pydbml.renderer.dbml.default.utils'
_sql_note = 'pydbml.renderer.sql.default.note'

prepare_text_for_dbml = _get(_dbml_utils, 'prepare_text_for_dbml')
quote_string = _get(_dbml_utils, 'quote_string')
note_option_to_dbml = _get(_dbml_utils, 'note_option_to_dbml')
prepare_text_for_sql = _get(_sql_note, 'prepare_text_for_sql')


def _wrap(f):
    try:
        return {'ok': f()}
    except Exception as e:  # noqa: BLE001
        return {'err': 'internal', 'exc': type(e).__name__}


def norm_impl(s):
    """The parser's note normalisation, through the blueprint classes when they are there."""
    try:
        from pydbml.parser.blueprints import NoteBlueprint
        return NoteBlueprint(s)._preformat_text()
    except (ImportError, AttributeError):
        return T.remove_indentation(T.strip_empty_lines(s))


def text_all(a, b):
    """All L1 functions on `a` (b: marker / prefix); missing helpers are reported as None."""
    r = {}
    r['comment'] = _wrap(lambda: T.comment(a, b))
    r['tools_indent'] = _wrap(lambda: T.indent(a))
    r['remove_bom'] = _wrap(lambda: T.remove_bom(a))
    r['strip_empty_lines'] = _wrap(lambda: T.strip_empty_lines(a))
    r['remove_indentation'] = _wrap(lambda: T.remove_indentation(a))
    r['norm'] = _wrap(lambda: norm_impl(a))
    r['doublequote_string'] = _wrap(lambda: T.doublequote_string(a))
    r['prepare_text_for_dbml'] = _wrap(lambda: prepare_text_for_dbml(a)) if prepare_text_for_dbml else None
    r['quote_string'] = _wrap(lambda: quote_string(a)) if quote_string else None
    r['note_option_to_dbml'] = _wrap(lambda: note_option_to_dbml(Note(a))) if note_option_to_dbml else None
    r['prepare_text_for_sql'] = _wrap(lambda: prepare_text_for_sql(Note(a))) if prepare_text_for_sql else None
    r['textwrap_indent'] = _wrap(lambda: textwrap.indent(a, b))
    r['isspace'] = {'ok': a.isspace()}
    r['splitlines'] = {'ok': a.splitlines(keepends=True)}
    return r
