/-
C13 (lexical layer) — a text written with the DBML renderer's escaping is read back to itself and
cannot end its literal early.
-/
import PyDBMLModel
namespace PyDBML
namespace C13
open Lex

/-! ### `prepare_text_for_dbml`, chunk by chunk -/

theorem prepare_plain (c : Char) (r : Str) (h1 : c ≠ '\'') (h2 : c ≠ '\\') :
    prepareTextForDbml (c :: r) = c :: prepareTextForDbml r := by
  rw [prepareTextForDbml.eq_def]
  split <;> simp_all

theorem prepare_backslash (r : Str) :
    prepareTextForDbml ('\\' :: r) = '\\' :: '\\' :: prepareTextForDbml r := by
  simp [prepareTextForDbml]

theorem prepare_triple (r : Str) :
    prepareTextForDbml ('\'' :: '\'' :: '\'' :: r) = '\\' :: '\'' :: '\'' :: '\'' :: prepareTextForDbml r := by
  simp [prepareTextForDbml]

theorem prepare_quote (r : Str) (hr : ∀ r', r ≠ '\'' :: '\'' :: r') :
    prepareTextForDbml ('\'' :: r) = '\\' :: '\'' :: prepareTextForDbml r := by
  rw [prepareTextForDbml.eq_def]
  split
  · rename_i h; simp at h; exact (hr _ h).elim
  · rename_i h; simp at h; subst h; rfl
  · rename_i h; simp at h
  · rename_i h1 h2 h; simp at h; exact absurd h.1.symm h1
  · rename_i h; simp at h

/-! ### the unquote scan on what the renderer emits -/

theorem unquote_plain (e d : Bool) (c : Char) (r : Str) (hc : c ≠ '\\') :
    unquoteAux e d 0 (c :: r) = c :: unquoteAux e d 0 r := by
  have : unquoteStep e d (c :: r) = ([c], 1) := by
    rw [unquoteStep.eq_def]
    split <;> simp_all
  simp [unquoteAux, this]

theorem unquote_esc_quote (d : Bool) (r : Str) :
    unquoteAux true d 0 ('\\' :: '\'' :: r) = '\'' :: unquoteAux true d 0 r := by
  have : unquoteStep true d ('\\' :: '\'' :: r) = (['\''], 2) := by
    simp [unquoteStep]
  simp [unquoteAux, this]

theorem unquote_esc_bs (d : Bool) (r : Str) :
    unquoteAux true d 0 ('\\' :: '\\' :: r) = '\\' :: unquoteAux true d 0 r := by
  have : unquoteStep true d ('\\' :: '\\' :: r) = (['\\'], 2) := by
    simp [unquoteStep]
  simp [unquoteAux, this]

/-- Reading back what the renderer's escaping wrote gives the text itself — for every text, in a
    one-line (`d = false`) as in a multi-line (`d = true`) literal. -/
theorem unquote_prepare (d : Bool) (t : Str) : unquote true d (prepareTextForDbml t) = t := by
  unfold unquote
  fun_induction prepareTextForDbml t with
  | case1 r ih =>
    rw [unquote_esc_quote, unquote_plain _ _ '\'' _ (by decide), unquote_plain _ _ '\'' _ (by decide), ih]
  | case2 r hr ih =>
    rw [unquote_esc_quote, ih]
  | case3 r ih =>
    rw [unquote_esc_bs, ih]
  | case4 c r h1 h2 h3 ih =>
    rw [unquote_plain _ _ c _ (by intro e; subst e; simp at h3), ih]
  | case5 => rfl

end C13
end PyDBML
