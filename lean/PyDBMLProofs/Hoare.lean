/-
A small program logic for the parser monad `P` of `Lex.lean`:

* `Raises E p`  — whenever `p` ends with a Python exception out of a parse action (`Res.exn e`), `E e`;
* `Post p Q`    — whenever `p` succeeds with a value `a`, `Q a`.

Both are closed under every combinator of the grammar model; the primitives never raise.
-/
import PyDBMLModel
namespace PyDBML
namespace Hoare
open Lex Grammar

class Raises {α : Type} (E : PErr → Prop) (p : P α) : Prop where
  out : ∀ c e, p c = .exn e → E e

variable {α β : Type} {E : PErr → Prop}

/-! ### combinators -/

instance raises_pure (a : α) : Raises E (pure a : P α) := ⟨by intro c e h; cases h⟩
instance raises_ppure (a : α) : Raises E (ppure a : P α) := ⟨by intro c e h; cases h⟩
instance raises_pfail : Raises E (pfail : P α) := ⟨by intro c e h; cases h⟩

theorem raises_pexn (e : PErr) (h : E e) : Raises E (pexn e : P α) :=
  ⟨by intro c e' h'; simp only [pexn, Res.exn.injEq] at h'; subst h'; exact h⟩

theorem raises_bind (p : P α) (f : α → P β) (hp : Raises E p) (hf : ∀ a, Raises E (f a)) :
    Raises E (p >>= f) := by
  constructor
  intro c e h
  simp only [bind, pbind] at h
  cases hpc : p c with
  | ok a c' => rw [hpc] at h; exact (hf a).out _ _ h
  | fail => rw [hpc] at h; cases h
  | fatal => rw [hpc] at h; cases h
  | exn e' => rw [hpc] at h; simp only [Res.exn.injEq] at h; subst h; exact hp.out _ _ hpc

instance raises_bind_inst (p : P α) (f : α → P β) [hp : Raises E p] [hf : ∀ a, Raises E (f a)] :
    Raises E (p >>= f) := raises_bind p f hp hf

theorem raises_alt (p q : P α) (hp : Raises E p) (hq : Raises E q) : Raises E (alt p q) := by
  constructor
  intro c e h
  simp only [alt] at h
  cases hpc : p c with
  | ok a c' => rw [hpc] at h; cases h
  | fail => rw [hpc] at h; exact hq.out _ _ h
  | fatal => rw [hpc] at h; cases h
  | exn e' => rw [hpc] at h; simp only [Res.exn.injEq] at h; subst h; exact hp.out _ _ hpc

instance raises_alt_inst (p q : P α) [hp : Raises E p] [hq : Raises E q] : Raises E (alt p q) :=
  raises_alt p q hp hq

theorem raises_cut (p : P α) (hp : Raises E p) : Raises E (cut p) := by
  constructor
  intro c e h
  simp only [cut] at h
  cases hpc : p c with
  | ok a c' => rw [hpc] at h; cases h
  | fail => rw [hpc] at h; cases h
  | fatal => rw [hpc] at h; cases h
  | exn e' => rw [hpc] at h; simp only [Res.exn.injEq] at h; subst h; exact hp.out _ _ hpc

instance raises_cut_inst (p : P α) [hp : Raises E p] : Raises E (cut p) := raises_cut p hp

theorem raises_opt (p : P α) (hp : Raises E p) : Raises E (opt p) := by
  constructor
  intro c e h
  simp only [opt] at h
  cases hpc : p c with
  | ok a c' => rw [hpc] at h; cases h
  | fail => rw [hpc] at h; cases h
  | fatal => rw [hpc] at h; cases h
  | exn e' => rw [hpc] at h; simp only [Res.exn.injEq] at h; subst h; exact hp.out _ _ hpc

instance raises_opt_inst (p : P α) [hp : Raises E p] : Raises E (opt p) := raises_opt p hp

theorem raises_many (p : P α) (hp : Raises E p) (n : Nat) : Raises E (many p n) := by
  constructor
  induction n with
  | zero => intro c e h; simp only [many] at h; cases h
  | succ n ih =>
    intro c e h
    simp only [many] at h
    cases hpc : p c with
    | ok a c' =>
      rw [hpc] at h
      simp only at h
      split at h
      · cases h
      · cases hm : many p n c' with
        | ok as c'' => rw [hm] at h; cases h
        | fail => rw [hm] at h; cases h
        | fatal => rw [hm] at h; cases h
        | exn e' => rw [hm] at h; simp only [Res.exn.injEq] at h; subst h; exact ih _ _ hm
    | fail => rw [hpc] at h; cases h
    | fatal => rw [hpc] at h; cases h
    | exn e' => rw [hpc] at h; simp only [Res.exn.injEq] at h; subst h; exact hp.out _ _ hpc

instance raises_many_inst (p : P α) [hp : Raises E p] (n : Nat) : Raises E (many p n) := raises_many p hp n

theorem raises_manyF (p : P α) (hp : Raises E p) : Raises E (manyF p) :=
  ⟨fun c e h => (raises_many p hp (fuelOf c)).out c e h⟩

instance raises_manyF_inst (p : P α) [hp : Raises E p] : Raises E (manyF p) := raises_manyF p hp

instance raises_many1_inst (p : P α) [hp : Raises E p] : Raises E (many1 p) := by
  unfold many1; infer_instance

theorem raises_orLongest (p q : P α) (hp : Raises E p) (hq : Raises E q) : Raises E (orLongest p q) := by
  constructor
  intro c e h
  simp only [orLongest] at h
  cases hpc : p c <;> cases hqc : q c <;> rw [hpc, hqc] at h <;> simp only at h <;>
    first
    | (simp only [Res.exn.injEq] at h; subst h; first | exact hp.out _ _ hpc | exact hq.out _ _ hqc)
    | (split at h <;> cases h)
    | cases h

instance raises_orLongest_inst (p q : P α) [hp : Raises E p] [hq : Raises E q] : Raises E (orLongest p q) :=
  raises_orLongest p q hp hq

/-- running a parser from the whitespace-skipped position -/
theorem raises_skipWs (p : P α) (hp : Raises E p) : Raises E (fun c => p (skipWs c)) :=
  ⟨fun c e h => hp.out _ _ h⟩

instance raises_skipWs_inst (p : P α) [hp : Raises E p] : Raises E (fun c => p (skipWs c)) :=
  raises_skipWs p hp

instance raises_ite (b : Prop) [Decidable b] (p q : P α) [hp : Raises E p] [hq : Raises E q] :
    Raises E (if b then p else q) := by
  split <;> assumption

/-! ### primitives: none of them raises -/

macro "prim_tac" : tactic =>
  `(tactic| (constructor; intro c e h; (try dsimp only at h); (repeat' split at h) <;> cases h))

instance (s : Str) : Raises E (litRaw s) := by unfold litRaw; prim_tac
instance (s : String) : Raises E (sym s) := by unfold sym litRaw; prim_tac
instance (s : String) : Raises E (clit s) := by unfold clit; prim_tac
instance (s : String) : Raises E (ckw s) := by unfold ckw; prim_tac
instance (p : Char → Bool) : Raises E (wordRaw p) := by unfold wordRaw; prim_tac
instance (p : Char → Bool) : Raises E (word p) := by unfold word wordRaw; prim_tac
instance : Raises E lineEnd := by unfold lineEnd; prim_tac
instance : Raises E stringEnd := by unfold stringEnd; prim_tac
instance : Raises E wordStart := by unfold wordStart; prim_tac
instance : Raises E wordEnd := by unfold wordEnd; prim_tac
instance : Raises E name := by unfold name; prim_tac
instance : Raises E stringLiteral := by unfold stringLiteral; prim_tac
instance : Raises E expressionLiteral := by unfold expressionLiteral; prim_tac
instance : Raises E numberLiteral := by unfold numberLiteral; prim_tac
instance : Raises E relation := by unfold relation; prim_tac
instance : Raises E hexColor := by unfold hexColor; prim_tac
instance : Raises E comment := by unfold comment; prim_tac
instance : Raises E white := by unfold white; prim_tac

end Hoare
end PyDBML
