"""C15 — arbitrary properties are honoured exactly when enabled."""
import copy
import json
import random
import sys

from harness import core, gen_db as GD, impl_text as IT, observe as O, speller as SP
from harness import parse_common as PC
from harness.driver import Driver, DriverError

sys.path.insert(0, '/repo')
from pydbml import PyDBML  # noqa: E402

PID = 'C15'
THEOREMS_PLANNED = ['PyDBML.C15.render_off_ignores_props', 'PyDBML.C15.column_props_shown_iff_enabled',
            'PyDBML.C15.sql_ignores_props']
THEOREMS = ['PyDBML.C15.column_props_hidden', 'PyDBML.C15.table_props_hidden', 'PyDBML.C15.column_props_shown', 'PyDBML.C15.sql_column_ignores_props',
            'PyDBML.C15.parseDoc_no_props_when_off', 'PyDBML.C02.flags_document_roundtrip_partial', 'PyDBML.C02.flags_refs_roundtrip_partial', 'PyDBML.C02.flags_tables_roundtrip_partial', 'PyDBML.C02.flags_table_roundtrip_partial', 'PyDBML.C02.item_ok',
            'PyDBML.C02.fold_append_props', 'PyDBML.C02.dictOf_distinct']
MODULES = ['PyDBMLProofs.Props.C15', 'PyDBMLProofs.Props.C15Grammar', 'PyDBMLProofs.Hoare', 'PyDBMLProofs.Props.C02Form',
           'PyDBMLProofs.Props.C02Flags', 'PyDBMLProofs.Props.C02Comment', 'PyDBMLProofs.Props.C02FormTables', 'PyDBMLProofs.Props.C02FormRefs', 'PyDBMLProofs.Props.C02FlagsTables', 'PyDBMLProofs.Props.C02Doc', 'PyDBMLProofs.Props.C02DocMore', 'PyDBMLProofs.Props.C02Group', 'PyDBMLProofs.Props.C02Inline', 'PyDBMLProofs.Props.C02Project', 'PyDBMLProofs.Props.C02EnumNote', 'PyDBMLProofs.Props.C02TableNote', 'PyDBMLProofs.Props.C02Document']


def has_props(spec):
    return any(t['props'] or any(c['props'] for c in t['columns']) for t in spec['tables'])


def strip_props(d):
    d = copy.deepcopy(d)
    for t in d['tables']:
        t['props'] = []
        for c in t['columns']:
            c['props'] = []
    return d


def _with_open(pth, f):
    with open(pth, encoding='utf8') as fh:
        return f(fh)


def job(seed):
    rng = random.Random(seed)
    spec = GD.gen_spec(rng, wild=False, max_tables=3, allow_props=True)
    # more properties than the generic generator gives
    for t in spec['tables']:
        if rng.random() < 0.5:
            t['props'] = [[k, rng.choice(['v', 'two words', "it's", 'x:y', 'a,b', '[b]', '', '0', 'line1\n  line2', '\n    indented\n    block\n', '  lead'])]
                          for k in rng.sample(['owner', 'team', 'k', 'label', 'zz', 'Owner', 'LABEL', 'K'], rng.randint(1, 4))]
        for c in t['columns']:
            if rng.random() < 0.35:
                c['props'] = [[k, rng.choice(['v', 'two words', "it's", 'x]y', 'a,b', '', '0', 'l1\n  l2', '  lead'])] for k in rng.sample(['label', 'k', 'zz', 'fmt', 'owner', 'Label', 'FMT', 'K'], rng.randint(1, 3))]
    if rng.random() < 0.3:
        spec = strip_props(spec)
    from harness.props.c02 import make_expressible
    from harness import expressible as EX
    spec = make_expressible(spec)
    # values DBML can declare but not render back (multi-line, leading blanks): stored exactly all the same ("keys and
    # values exact"); the round-trip clause is skipped for them (C13 findings)
    if rng.random() < 0.35:
        for t in spec['tables']:
            for holder in [t] + t['columns']:
                if holder['props'] and rng.random() < 0.6:
                    holder['props'][rng.randrange(len(holder['props']))][1] = rng.choice(
                        ['line1\n  line2', '\n    indented\n    block\n', '  lead', 'a\n\nb', '    x\n    y'])
    if not SP.spellable(spec):
        return None
    out = {'fails': [], 'hasprops': has_props(spec), 'texts': [], 'expressible': not EX.reasons(spec)}
    text, exp, _ = SP.spell(spec, rng, {'varied': True})
    out['text'] = text
    # (1) enabled: stored exactly, order kept, alongside ordinary settings; the database has the option on
    r_on = PC.impl_parse(text, True)
    out['texts'].append((text, True, r_on))
    if 'ok' not in r_on:
        out['fails'].append(('document with properties is rejected although the option is on: ' + r_on['err'], text, True))
        return out
    if O.strip_comments(r_on['ok']) != O.strip_comments(exp):
        d = PC.first_diff(O.strip_comments(exp), O.strip_comments(r_on['ok']))
        out['fails'].append((f'parsed content differs from the declared one at {d[0] if d else "?"}', text, True))
    if not r_on['ok']['allow_properties']:
        out['fails'].append(('resulting database does not have the option enabled', text, True))
    # (1b) the option has the same effect on every route of the constructor that accepts it (Path, open file)
    import os
    import tempfile
    from pathlib import Path
    fd, pth = tempfile.mkstemp(suffix='.dbml')
    try:
        with os.fdopen(fd, 'w', encoding='utf8') as f:
            f.write(text)
        for route, thunk in (('Path', lambda: PyDBML(Path(pth), allow_properties=True)),
                             ('open file', lambda: _with_open(pth, lambda fh: PyDBML(fh, allow_properties=True)))):
            try:
                d2 = O.dump_db(thunk())
                if d2 != r_on['ok']:
                    what = 'does not have the option enabled' if not d2['allow_properties'] else 'differs from the string route'
                    out['fails'].append((f'PyDBML({route}, allow_properties=True): the resulting database {what}', text, True))
            except Exception as e:  # noqa: BLE001
                out['fails'].append((f'PyDBML({route}, allow_properties=True) fails although the string route accepts the document: ' + O.classify(e), text, True))
    finally:
        os.unlink(pth)
    # (2) disabled: the same syntax is a syntax error (when there is a property), nothing else changes otherwise
    r_off = PC.impl_parse(text, False)
    out['texts'].append((text, False, r_off))
    if out['hasprops']:
        if r_off.get('err') != 'syntax':
            out['fails'].append(('property syntax is not a syntax error with the option off: ' + PC.brief(r_off), text, False))
    else:
        if 'ok' not in r_off:
            out['fails'].append(('a document without properties is rejected with the option off', text, False))
        else:
            a = dict(r_on['ok'], allow_properties=None)
            b = dict(r_off['ok'], allow_properties=None)
            if a != b:
                out['fails'].append(('enabling the option changes how a document without properties is parsed', text, False))
            da, db_ = PyDBML(text, allow_properties=True), PyDBML(text, allow_properties=False)
            if da.dbml != db_.dbml or da.sql != db_.sql:
                out['fails'].append(('enabling the option changes how a document without properties is rendered', text, False))
    # (3) rendering gate and round trip
    db = PyDBML(text, allow_properties=True)
    d_on = db.dbml
    seq = []
    for flip in range(3):
        db.allow_properties = not db.allow_properties
        seq.append((db.allow_properties, db.dbml))
    out['dumps'] = {'on': O.dump_db(PyDBML(text, allow_properties=True))}
    dprops_erased = strip_props(out['dumps']['on'])
    fresh_noprops, _ = GD.build(dict(dprops_erased, allow_properties=False))
    want_off = fresh_noprops.dbml
    for flag, txt in seq:
        if flag and txt != d_on:
            out['fails'].append(('rendering with the option switched back on differs from the original rendering', text, True))
        if not flag and out['hasprops'] and txt != want_off:
            out['fails'].append(('with the option off the rendering is not that of the same database without properties', text, True))
    # element level: table / column renderings follow the owning database's flag
    db = PyDBML(text, allow_properties=True)
    for t in db.tables:
        on_t = t.dbml
        db.allow_properties = False
        off_t = t.dbml
        db.allow_properties = True
        if (t.properties or any(c.properties for c in t.columns)) and on_t == off_t:
            out['fails'].append(('table rendering does not depend on the database flag although properties exist', text, True))
        for c in t.columns:
            on_c = c.dbml
            db.allow_properties = False
            off_c = c.dbml
            db.allow_properties = True
            if bool(c.properties) != (on_c != off_c):
                out['fails'].append(('column rendering shows properties inconsistently with the flag', text, True))
    # round trip with the flag on (C02 instance) when the values allow it
    if out['expressible']:
        db = PyDBML(text, allow_properties=True)
        r2 = PC.impl_parse(db.dbml, True)
        if 'ok' not in r2:
            out['fails'].append(('rendered properties do not parse back: ' + r2['err'], text, True))
        else:
            pa = [(t['props'], [c['props'] for c in t['columns']]) for t in out['dumps']['on']['tables']]
            pb = [(t['props'], [c['props'] for c in t['columns']]) for t in r2['ok']['tables']]
            if pa != pb:
                out['fails'].append(('properties do not round-trip through DBML', text, True))
    return out


def main(tier, seed):
    ctx = core.Ctx(PID, tier, seed, 'translation_validation', THEOREMS, MODULES)
    ctx.build()
    problems = ctx.audit() if ctx.build_ok else ['lake build failed']
    drv = None
    try:
        drv = Driver()
    except DriverError as e:
        ctx.notes.append(str(e))
    n = 700 if not ctx.thorough else 12000
    res = [r for r in core.pmap(job, [f'{seed}:{k}' for k in range(n)]) if r is not None]
    texts = []
    for k, r in enumerate(res):
        ctx.case(core.h(r['text']), r['hasprops'], sample={'has_properties': r['hasprops'], 'text': r['text'][:400]} if k % 200 == 5 else None)
        ctx.count('with-properties' if r['hasprops'] else 'without-properties')
        for what, text, props in r['fails'][:3]:
            ctx.fail(what, {'op': 'props', 'text': text, 'props': props})
        texts += r['texts']
    # objects built through the public classes: a property added to ONE table / column is stored on that one and shows in that
    # one's rendering only - however the objects were constructed (no properties argument, None, an own dict)
    from pydbml.classes import Column, Table
    from pydbml.database import Database
    for how in ('no argument', 'None', 'own dict each', 'parsed'):
        mk = {'no argument': lambda: {}, 'None': lambda: {'properties': None}, 'own dict each': lambda: {'properties': {}}}.get(how)
        if how == 'parsed':
            db = PyDBML("Table a {\n  x int\n  y int\n}\nTable b {\n  x int\n}\n", allow_properties=True)
            ta, tb = db.tables
            ca, cb, cc = ta.columns[0], ta.columns[1], tb.columns[0]
        else:
            db = Database(allow_properties=True)
            ta, tb = Table('a', **mk()), Table('b', **mk())
            ca, cb, cc = Column('x', 'int', **mk()), Column('y', 'int', **mk()), Column('x', 'int', **mk())
            ta.add_column(ca); ta.add_column(cb); tb.add_column(cc)     # noqa: E702
            db.add(ta); db.add(tb)                                       # noqa: E702
        ta.properties['owner'] = 'team a'
        ca.properties['unit'] = 'cm'
        ctx.case(core.h(['in-place property', how]), True, sample={'objects_built_with': how, 'b.properties': dict(tb.properties)})
        leaked = [n for n, o in (('table b', tb), ('column a.y', cb), ('column b.x', cc)) if o.properties]
        wrong = (dict(ta.properties) != {'owner': 'team a'} or dict(ca.properties) != {'unit': 'cm'}
                 or "owner: 'team a'" in tb.dbml or "unit: 'cm'" in cb.dbml or "unit: 'cm'" in cc.dbml
                 or db.dbml.count("owner: 'team a'") != 1 or db.dbml.count("unit: 'cm'") != 1)
        fresh_t, fresh_c = Table('fresh'), Column('fresh', 'int')
        if leaked or wrong or fresh_t.properties or fresh_c.properties:
            ctx.fail(f'a property added to one table and one column (objects built with: {how}) is not stored on exactly those: '
                     f'also on {leaked or "a newly constructed object / the rendering of another"}', {'op': 'in-place-property', 'how': how})
    if drv is not None:
        ms = drv.ask_many({'op': 'parse', 'text': t, 'allow_properties': p} for t, p, _ in texts)
        for (t, p, i), m in zip(texts, ms):
            if m.get('err') != 'outOfModel' and not PC.same_parse(m, i):
                ctx.diverge('parse under allow_properties=%s' % p, {'op': 'parse', 'text': t, 'props': p}, PC.brief(m), PC.brief(i))
        # model rendering with the flag off == model rendering without properties (what the theorem says), on real dumps
        dumps = [r['dumps']['on'] for r in res if 'dumps' in r][:300]
        a = drv.ask_many({'op': 'dbml', 'db': dict(d, allow_properties=False)} for d in dumps)
        b = drv.ask_many({'op': 'dbml', 'db': dict(strip_props(d), allow_properties=False)} for d in dumps)
        for d, x, y in zip(dumps, a, b):
            if x != y:
                ctx.diverge('model: rendering with the flag off vs properties erased', {'op': 'dbml', 'db': d}, x, y)
        drv.close()
    return ctx.finish(
        rule='spelled documents with table-body and column-setting properties (1-3 per table, 1-2 per column, values with quotes, '
             'colons, commas, brackets) next to ordinary settings, notes and indexes; each parsed with the option on and off, '
             'rendered under three flips of the database flag, at database, table and column level. Non-trivial: the document '
             'has at least one property; distinct by document hash',
        explanation='Theorems: the DBML rendering of a database with the flag off equals that of the same database with all '
                    'properties erased; a column shows its properties iff the flag is on; SQL never depends on properties; parseDoc_no_props_when_off - '
                    'for ANY text parsed with the option off no table or column blueprint carries a property (postcondition logic over '
                    'the grammar model): `key: value` is never read as a property there; flags_refs_roundtrip_partial / flags_tables_roundtrip_partial / flags_table_roundtrip_partial (PyDBMLProofs/Props/C02Flags*.lean) - '
                    'with the option ON, a document of any number of tables (and references between them) whose columns carry any number of properties `key: \'value\'` next to any subset of pk / increment / '
                    'unique / not null / a one-line note is rendered and read back to exactly the same database: keys and values exact, order kept '
                    '(hypotheses: keys are pairwise different bare identifiers that no setting word is a caseless prefix of - the recorded finding '
                    'KF-C01-prop-key-kw-prefix -, values are plain lines); with the option OFF the same theorem holds for columns without properties. Model '
                    'tied by parse correspondence under both option values. Oracle: exact storage and order with the option on, '
                    'syntax error with it off, nothing else changes for documents without properties, flips switch rendering.',
        assumptions=['property values without line breaks for the round-trip clause (multi-line values: see C13 findings)'],
        trusted_base=['Lean 4.33 kernel', 'axioms: propext, Classical.choice, Quot.sound only',
                      'hand-written models tied by this correspondence'],
        proof_problems=problems)


def replay(path):
    case = json.load(open(path))
    c = case.get('case', {})
    print(json.dumps({k: v for k, v in case.items() if k != 'case'}, indent=1)[:2000])
    if 'text' in c:
        print(c['text'])
        print('on :', PC.brief(PC.impl_parse(c['text'], True)))
        print('off:', PC.brief(PC.impl_parse(c['text'], False)))
    return 0
