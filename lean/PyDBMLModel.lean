import PyDBMLModel.Py
import PyDBMLModel.Text
import PyDBMLModel.Model
import PyDBMLModel.Domain
import PyDBMLModel.RenderSql
import PyDBMLModel.RenderDbml
import PyDBMLModel.Codec
