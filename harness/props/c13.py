"""C13 — free text survives: notes normalise idempotently, no text breaks its literal.

Parts
  text   correspondence of every L1 text function (Lean `PyDBMLModel/Text.lean`) with the real helpers
  idem   oracle: norm(norm t) = norm t on the real code (theorem: PyDBML.C13.norm_idem)
  styles oracle: one text written in the three string styles is stored identically
  sites  oracle: store -> render DBML -> parse -> same text, nothing else changed, at every
         text-bearing site; model-side domain predicate `siteReason` names the excluded regions
  sql    oracle: note text inside one single-quoted literal without a bare quote; expressions verbatim
"""
import json
import sys

from harness import ref_text as RT
from harness import core, gen_strings as G
from harness.driver import Driver, DriverError
from harness import observe as O
from harness import impl_text as IT
from harness import sites as S

PID = 'C13'
THEOREMS = [
    'PyDBML.C13.norm_idem',
    'PyDBML.C13.removeIndentation_idem',
    'PyDBML.C13.norm_not_idem_exotic',
    'PyDBML.C13.sql_text_no_quote',
    'PyDBML.C13.sql_note_literal',
    'PyDBML.C13.sql_expr_verbatim',
    'PyDBML.C13.unquote_prepare',
    'PyDBML.C13.scanQ1_prepare',
    'PyDBML.C13.scanQ3_prepare',
    'PyDBML.C13.stringLiteral_reads_one_line',
    'PyDBML.C13.stringLiteral_reads_triple',
]
MODULES = ['PyDBMLProofs.Props.C13', 'PyDBMLProofs.Props.C13Lex', 'PyDBMLProofs.Props.C13Norm']
FNS = ['comment', 'tools_indent', 'remove_bom', 'strip_empty_lines', 'remove_indentation', 'norm',
       'doublequote_string', 'prepare_text_for_dbml', 'quote_string', 'note_option_to_dbml',
       'prepare_text_for_sql', 'textwrap_indent', 'isspace', 'splitlines']


def exotic_blank(s):
    """Reason `NoExoticBlank` fails: a line that is isspace() but not [ \\t]* (mirror of the Lean
    predicate `PyDBML.NoExoticBlank`; the driver's verdict is compared with this one)."""
    return any(l.isspace() and any(c not in ' \t' for c in l) for l in s.split('\n'))


def gen_text_inputs(ctx):
    rng = ctx.rng
    quick = not ctx.thorough
    out = []
    out += list(G.exhaustive(G.A7, 5 if quick else 7))
    out += list(G.exhaustive(G.EXT, 3 if quick else 4))
    out += list(G.random_strings(rng, G.A7, 4000 if quick else 40000, 6, 14))
    out += list(G.random_strings(rng, G.EXT, 4000 if quick else 40000, 4, 12))
    out += list(G.random_strings(rng, G.PRINTABLE_POOL + ['\n', ' ', ' '], 3000 if quick else 30000, 1, 30))
    out += list(G.random_texts(rng, 2000 if quick else 20000))
    # indentation family: three lines with every combination of indentation / blank-line width 0..5,
    # optionally wrapped in blank lines (the region where normalisation does its work)
    for i1 in range(6):
        for w in range(6):
            for i2 in range(6):
                core_t = ' ' * i1 + 'a\n' + ' ' * w + '\n' + ' ' * i2 + 'b'
                out.append(core_t)
                if (i1 + w + i2) % 3 == 0:
                    out.append('\n' + core_t + '\n  ')
                    out.append(core_t.replace(' ', '\t'))
    for c in G.bmp_chars():
        out.append(c)
    for c in G.bmp_chars():
        if c.isspace() or ord(c) % (7 if quick else 1) == 0:
            out.append(' ' + c + 'x\n' + c + ' y')
    for cp in (0x10000, 0x1F600, 0x10FFFF, 0xE0001):
        out.append(chr(cp))
    return out


def impl_text_job(batch):
    res = []
    for a, b in batch:
        res.append(IT.text_all(a, b))
    return res


def part_text(ctx, drv):
    inputs = gen_text_inputs(ctx)
    seen = set()
    uniq = []
    for s in inputs:
        if s not in seen:
            seen.add(s)
            uniq.append(s)
    markers = ['//', '--', '    ', '  ']
    reqs = [(s, markers[i % 4]) for i, s in enumerate(uniq)]
    impl = [r for chunk in core.pmap(impl_text_job, core.chunks(reqs, 64)) for r in chunk] \
        if len(reqs) >= 64 else impl_text_job(reqs)
    model = drv.ask_many({'op': 'textall', 'a': a, 'b': b} for a, b in reqs)
    crit = set("'\"\\`\n\r\t")
    for (a, b), mi, mm in zip(reqs, impl, model):
        nontrivial = any(c in crit or ord(c) > 127 for c in a)
        ctx.case(core.h(['text', a, b]), nontrivial,
                 sample={'part': 'text', 'a': a, 'b': b, 'norm': mi['norm']} if nontrivial and len(a) > 3 else None)
        # the harness's own reference normalisation is tied to the MODEL here (not to the code under test)
        rn = mm.get('norm')
        if isinstance(rn, dict) and 'ok' in rn and RT.ref_norm(a) != rn['ok']:
            raise RuntimeError(f'harness/ref_text.ref_norm disagrees with the Lean model on {a!r}: {RT.ref_norm(a)!r} vs {rn["ok"]!r}')
        for fn in FNS:
            iv = mi.get(fn)
            if iv is None:
                ctx.count(f'text:{fn}:helper-missing')
                continue
            mv = mm.get(fn)
            if mv != iv:
                ctx.diverge(f'text:{fn}', {'op': 'text', 'fn': fn, 'a': a, 'b': b}, mv, iv)
        ctx.count('text:len<=3' if len(a) <= 3 else 'text:len<=7' if len(a) <= 7 else 'text:len>7')
    return uniq


def part_idem(ctx, strings):
    """norm idempotence on the real code."""
    n_in = n_out = 0
    for s in strings:
        try:
            n1 = IT.norm_impl(s)
        except Exception:  # noqa: BLE001  (whitespace-only text: C08's business)
            ctx.count('idem:norm-raises')
            continue
        try:
            n2 = IT.norm_impl(n1)
        except Exception as e:  # noqa: BLE001
            n2 = f'<raises {type(e).__name__}>'
        ex = exotic_blank(s)
        if ex:
            n_out += 1
        else:
            n_in += 1
        ctx.case(core.h(['idem', s]), '\n' in s)
        if n2 != n1:
            ctx.fail('norm(norm t) != norm t', {'op': 'idem', 't': s}, reason='NoExoticBlank' if ex else None,
                     norm1=n1, norm2=n2)
    ctx.count('idem:in-domain', n_in)
    ctx.count('idem:exotic-blank(out-of-domain)', n_out)


def part_styles(ctx):
    rng = ctx.rng
    texts = list(G.exhaustive(G.A7, 3 if not ctx.thorough else 4))
    texts += list(G.random_texts(rng, 300 if not ctx.thorough else 4000))
    texts += list(G.random_strings(rng, G.PRINTABLE_POOL + ['\n', ' '], 300 if not ctx.thorough else 4000, 1, 20))
    texts = [t for t in dict.fromkeys(texts) if t.strip(' \n') != '' or t == '']
    res = core.pmap(S.styles_job, texts)
    for t, r in zip(texts, res):
        ctx.case(core.h(['styles', t]), any(c in "'\"\\\n" for c in t),
                 sample={'part': 'styles', 't': t, 'stored': r.get('stored')} if len(t) > 4 else None)
        if r.get('skip'):
            ctx.count('styles:skip:' + r['skip'])
            continue
        if not r['ok']:
            ctx.fail('the three string styles store different texts', {'op': 'styles', 't': t},
                     reason=r.get('reason'), observed=r['observed'])
        ctx.count('styles:checked')


def part_sites(ctx, drv):
    rng = ctx.rng
    quick = not ctx.thorough
    texts = list(G.exhaustive(G.A7, 3 if quick else 4))
    texts += list(G.random_texts(rng, 150 if quick else 3000))
    texts += list(G.random_strings(rng, G.PRINTABLE_POOL + ['\n', ' '], 150 if quick else 3000, 1, 24))
    # blanks at the end of a line that is not the last one; several empty lines in a row; a line of only a backslash
    special = ['a \na', 'x  \ny  \nz', 'a\n\n\nb', 'a \n\nb', 'a\n  b  \nc', 'end \nof line', 'a\n\\\nb']
    texts += special
    texts = list(dict.fromkeys(texts))
    jobs = []
    for i, t in enumerate(texts):
        for site in (S.SITES if (len(t) <= 3 or not quick or t in special) else [S.SITES[(i + k) % len(S.SITES)] for k in range(3)]):
            jobs.append((site, t))
    # the model-side domain predicate
    reasons = None
    if drv is not None:
        reasons = drv.ask_many({'op': 'site_reason', 'site': site, 't': t} for site, t in jobs)
    res = core.pmap(S.site_job, jobs)
    for k, ((site, t), r) in enumerate(zip(jobs, res)):
        py_reason = S.site_reason(site, t)
        if reasons is not None:
            mr = reasons[k].get('ok', '<bad>')
            if mr != (py_reason or ''):
                ctx.diverge('domain:site_reason', {'op': 'site_reason', 'site': site, 't': t}, mr, py_reason or '')
                if mr != '<bad>':
                    # the Python predicate asks the implementation's own normalisation whether a note text is normal; where it
                    # disagrees with the model's predicate the model decides, so that a changed normalisation cannot excuse itself
                    py_reason = mr or None
        ctx.count(f'sites:{site}')
        ctx.count('sites:reason:' + (py_reason or 'in-domain'))
        ctx.case(core.h(['site', site, t]), any(c in "'\"\\\n`{}[]#/" for c in t),
                 sample={'part': 'sites', 'site': site, 't': t, 'reason': py_reason} if len(t) > 5 and k % 97 == 0 else None)
        if r.get('skip'):
            ctx.count('sites:skip:' + r['skip'])
            continue
        if py_reason in ('NotPrintable', 'NotNormal'):
            ctx.count('sites:outside-statement')
            continue
        if not r['ok']:
            ctx.fail(f'text at site {site} does not survive render->parse ({r["how"]})',
                     {'op': 'site', 'site': site, 't': t}, reason=py_reason, how=site + ':' + r['how'], detail=r.get('detail'))
        elif py_reason is not None:
            ctx.count('sites:out-of-domain-but-survived')


def part_sql(ctx):
    rng = ctx.rng
    texts = list(G.exhaustive(G.A7, 3))
    texts += list(G.random_texts(rng, 300 if not ctx.thorough else 5000))
    # shapes a renderer might be tempted to "simplify": already parenthesised, quoted, bracketed, empty
    texts += ['(a) + (b)', '(x)', '()', '((x))', "(now()) + (interval '1 day')", '(a', 'a)', "'x'", '"x"', '`x`', '[x]', '{x}', ' x ', '(x) ', ' (x)',
              'a -- b', 'a; b', 'a /* b */']
    texts = [t for t in dict.fromkeys(texts)]
    res = core.pmap(S.sql_job, texts)
    for t, r in zip(texts, res):
        ctx.case(core.h(['sql', t]), "'" in t or '\\' in t)
        for what, detail in r:
            ctx.fail(what, {'op': 'sqltext', 't': t}, detail=detail)
        ctx.count('sql:checked')


def kf_replay(f):
    w = f['witness']
    if w['op'] == 'idem':
        n1 = IT.norm_impl(w['t'])
        return IT.norm_impl(n1) != n1
    if w['op'] == 'site':
        r = S.site_job((w['site'], w['t']))
        return not r.get('ok', False)
    return True


def main(tier, seed):
    ctx = core.Ctx(PID, tier, seed, 'proof', THEOREMS, MODULES)
    ctx.build()
    problems = ctx.audit() if ctx.build_ok else ['lake build failed']
    drv = None
    try:
        drv = Driver()
    except DriverError as e:
        ctx.notes.append(str(e))
    try:
        if drv is not None:
            strings = part_text(ctx, drv)
        else:
            strings = list(dict.fromkeys(gen_text_inputs(ctx)))
        part_idem(ctx, strings)
        part_styles(ctx)
        part_sites(ctx, drv)
        part_sql(ctx)
    finally:
        if drv is not None:
            drv.close()
    return ctx.finish(
        rule='strings: exhaustive over {a,space,LF,\',",\\,`} to length 5 (thorough 7) and over that alphabet plus '
             '{CR,TAB,NBSP,{,#,/,n,VT,U+2028,e-acute} to length 3 (4), random strings/texts, every BMP code point singly and in an '
             'indentation context; each through all 14 L1 functions on both sides. Sites: text x 12 text-bearing '
             'positions through real render->parse. Non-trivial: contains a quote, backslash, backtick, line break or '
             'non-ASCII character (text), a line break (idem), a critical character (sites). Distinct by canonical hash.',
        explanation='Lean theorems about the model of the text helpers: norm_idem (normalisation is idempotent on every text '
                    'without exotic blank lines; norm_not_idem_exotic shows the hypothesis is tight, which is the known finding '
                    'WhitespaceOnlyLine), removeIndentation_idem (unconditional), SQL literal safety, quote escaping and '
                    'string-literal reading (unquote_prepare, scanQ*_prepare, stringLiteral_reads_*); model tied to pydbml/tools.py and renderer utils by exhaustive/sampled differential '
                    'testing; property oracles on the real parser/renderers for the round trip at each site.',
        assumptions=['CPython str/re semantics are modelled, validated per character over the BMP',
                     'site round trip is decided by the model-free oracle on sampled texts; theorems cover the lexical layer'],
        trusted_base=['Lean 4.33 kernel', 'axioms: propext, Classical.choice, Quot.sound only',
                      'hand-written model PyDBMLModel/{Py,Text}.lean tied by this correspondence',
                      'harness/sites.py builders and dumps'],
        kf_replay=kf_replay, proof_problems=problems)


def replay(path):
    case = json.load(open(path))
    c = case.get('case', {})
    print(json.dumps(case, indent=1)[:4000])
    if c.get('op') == 'idem':
        n1 = IT.norm_impl(c['t'])
        print('impl norm1', repr(n1), 'norm2', repr(IT.norm_impl(n1)))
    elif c.get('op') == 'site':
        print(S.site_job((c['site'], c['t'])))
    elif c.get('op') == 'text':
        print('impl', IT.text_all(c['a'], c['b']).get(c['fn']))
        with Driver() as d:
            print('model', d.ask({'op': 'text', 'fn': c['fn'], 'a': c['a'], 'b': c['b']}))
    return 0
