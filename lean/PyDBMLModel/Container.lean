/-
L2 (container level): `Database` as a state machine over a fixed universe of objects with
identities.  An object is an index into the universe list of its kind; `inDb` is the object's
`database` back-pointer (`database is db`).  Equality is the modelled `__eq__` of each class:
structural for Table / Reference / Enum (Enum's includes the `database` field), identity for
TableGroup / StickyNote / Project.  Python's `x in list` / `list.index(x)` is identity-or-equality.

`table_dict` is the computed mapping (full name and alias of every contained table, later
insertion overriding an earlier equal key), as `Database.table_dict` is after the repair recorded in
known_findings.json (KF-C09-stale-dict).
-/
import PyDBMLModel.Model
namespace PyDBML
namespace Cont

structure TObj where
  name : Str
  schema : Str
  alias : Option Str      -- `None` or a non-empty string (`alias if alias else None`)
  content : Nat           -- equivalence class of everything else `Table.__eq__` compares
  inDb : Bool := false
  deriving Repr, DecidableEq, Inhabited

/-- a column of a reference endpoint: owning table (universe index, if any) and content class -/
structure RCol where
  owner : Option Nat
  key : Nat
  deriving Repr, DecidableEq, Inhabited

structure RObj where
  sig : Nat               -- type, name, actions (not the comment)
  cols : List RCol        -- col1 ++ col2 (lengths are part of `sig`)
  inDb : Bool := false
  deriving Repr, DecidableEq, Inhabited

structure EObj where
  name : Str
  schema : Str
  content : Nat
  inDb : Bool := false
  deriving Repr, DecidableEq, Inhabited

structure GObj where
  name : Str
  inDb : Bool := false
  deriving Repr, DecidableEq, Inhabited

structure St where
  T : List TObj := []
  R : List RObj := []
  E : List EObj := []
  G : List GObj := []
  N : List Bool := []     -- sticky notes: just the back-pointer
  P : List Bool := []     -- projects: just the back-pointer
  tables : List Nat := []
  refs : List Nat := []
  enums : List Nat := []
  groups : List Nat := []
  sticky : List Nat := []
  project : Option Nat := none
  deriving Repr, DecidableEq, Inhabited

inductive Kind where
  | table | ref | enum | group | sticky | project | other
  deriving Repr, DecidableEq, Inhabited

inductive Op where
  | add (k : Kind) (i : Nat)          -- `db.add(obj)`
  | delete (k : Kind) (i : Nat)       -- `db.delete(obj)`
  | deleteSticky (i : Nat)            -- no such method: `db.delete(sticky)` is `delete .sticky`
  | deleteProject                     -- `db.delete_project()`
  | setName (i : Nat) (s : Str)
  | setSchema (i : Nat) (s : Str)
  | setAlias (i : Nat) (a : Option Str)
  deriving Repr, DecidableEq, Inhabited

inductive Outcome where
  | ok
  | rejected      -- DatabaseValidationError, state unchanged
  | badOp         -- the operation names an object outside the universe
  deriving Repr, DecidableEq, Inhabited

def TObj.fullName (t : TObj) : Str := t.schema ++ '.' :: t.name

/-- `Table.__eq__` (everything but `database`). -/
def tEq (a b : TObj) : Bool :=
  a.name == b.name && a.schema == b.schema && a.alias == b.alias && a.content == b.content

/-- `Column.__eq__` for reference endpoints: identical object is approximated by equal (owner, key);
    otherwise equal owner full names (or both ownerless) and equal content. -/
def cEq (s : St) (a b : RCol) : Bool :=
  a.key == b.key &&
  (match a.owner, b.owner with
   | none, none => true
   | some i, some j => i == j ||
      (match s.T[i]?, s.T[j]? with
       | some x, some y => x.fullName == y.fullName
       | _, _ => false)
   | _, _ => false)

def listEq {α} (f : α → α → Bool) : List α → List α → Bool
  | [], [] => true
  | a :: as, b :: bs => f a b && listEq f as bs
  | _, _ => false

/-- `Reference.__eq__` (ignores `database` and `_inline`). -/
def rEq (s : St) (a b : RObj) : Bool := a.sig == b.sig && listEq (cEq s) a.cols b.cols

/-- `Enum.__eq__` (compares `database` too). -/
def eEq (a b : EObj) : Bool :=
  a.name == b.name && a.schema == b.schema && a.content == b.content && a.inDb == b.inDb

/-- position of the first member that *is* or *equals* object `i` (`list.index`). -/
def indexOf (members : List Nat) (i : Nat) (eq : Nat → Bool) : Option Nat :=
  members.findIdx? fun j => j == i || eq j

def tIndex (s : St) (i : Nat) : Option Nat :=
  match s.T[i]? with
  | some x => indexOf s.tables i fun j => match s.T[j]? with | some y => tEq x y | none => false
  | none => none
def rIndex (s : St) (i : Nat) : Option Nat :=
  match s.R[i]? with
  | some x => indexOf s.refs i fun j => match s.R[j]? with | some y => rEq s x y | none => false
  | none => none
def eIndex (s : St) (i : Nat) : Option Nat :=
  match s.E[i]? with
  | some x => indexOf s.enums i fun j => match s.E[j]? with | some y => eEq x y | none => false
  | none => none
def idIndex (members : List Nat) (i : Nat) : Option Nat := members.findIdx? (· == i)

/-- the (key, table) insertion sequence of the computed `table_dict`. -/
def dictSeq (s : St) : List (Str × Nat) :=
  s.tables.flatMap fun i =>
    match s.T[i]? with
    | some t => (t.fullName, i) :: (match t.alias with | some a => [(a, i)] | none => [])
    | none => []

/-- `db.table_dict.get(key)`: a later insertion overrides an earlier one. -/
def lookup (s : St) (key : Str) : Option Nat :=
  ((dictSeq s).reverse.find? fun p => p.1 == key).map (·.2)

def hasKey (s : St) (key : Str) : Bool := (dictSeq s).any fun p => p.1 == key

def setT (s : St) (i : Nat) (f : TObj → TObj) : St :=
  { s with T := s.T.modify i f }

def eraseAt (l : List Nat) (k : Nat) : List Nat := l.eraseIdx k

def step (s : St) : Op → St × Outcome
  | .add .table i =>
    match s.T[i]? with
    | none => (s, .badOp)
    | some t =>
      if (tIndex s i).isSome then (s, .rejected)
      else if hasKey s t.fullName then (s, .rejected)
      else if (match t.alias with | some a => hasKey s a | none => false) then (s, .rejected)
      else ({ setT s i (fun t => { t with inDb := true }) with tables := s.tables ++ [i] }, .ok)
  | .add .ref i =>
    match s.R[i]? with
    | none => (s, .badOp)
    | some r =>
      if !(r.cols.any fun c => match c.owner with
            | some o => (match s.T[o]? with | some t => t.inDb | none => false)
            | none => false) then (s, .rejected)
      else if (rIndex s i).isSome then (s, .rejected)
      else ({ s with R := s.R.modify i (fun r => { r with inDb := true }), refs := s.refs ++ [i] }, .ok)
  | .add .enum i =>
    match s.E[i]? with
    | none => (s, .badOp)
    | some e =>
      if (eIndex s i).isSome then (s, .rejected)
      else if s.enums.any (fun j => match s.E[j]? with
            | some x => x.name == e.name && x.schema == e.schema | none => false) then (s, .rejected)
      else ({ s with E := s.E.modify i (fun e => { e with inDb := true }), enums := s.enums ++ [i] }, .ok)
  | .add .group i =>
    match s.G[i]? with
    | none => (s, .badOp)
    | some g =>
      if (idIndex s.groups i).isSome then (s, .rejected)
      else if s.groups.any (fun j => match s.G[j]? with | some x => x.name == g.name | none => false)
      then (s, .rejected)
      else ({ s with G := s.G.modify i (fun g => { g with inDb := true }), groups := s.groups ++ [i] }, .ok)
  | .add .sticky i =>
    match s.N[i]? with
    | none => (s, .badOp)
    | some _ =>
      if (idIndex s.sticky i).isSome then (s, .rejected)
      else ({ s with N := s.N.set i true, sticky := s.sticky ++ [i] }, .ok)
  | .add .project i =>
    match s.P[i]? with
    | none => (s, .badOp)
    | some _ =>
      let P1 := match s.project with | some p => s.P.set p false | none => s.P
      ({ s with P := P1.set i true, project := some i }, .ok)
  | .add .other _ => (s, .rejected)
  | .delete .table i =>
    match tIndex s i with
    | none => (s, if i < s.T.length then .rejected else .badOp)
    | some k =>
      match s.tables[k]? with
      | some m => ({ setT s m (fun t => { t with inDb := false }) with tables := eraseAt s.tables k }, .ok)
      | none => (s, .badOp)
  | .delete .ref i =>
    match rIndex s i with
    | none => (s, if i < s.R.length then .rejected else .badOp)
    | some k =>
      match s.refs[k]? with
      | some m => ({ s with R := s.R.modify m (fun r => { r with inDb := false }), refs := eraseAt s.refs k }, .ok)
      | none => (s, .badOp)
  | .delete .enum i =>
    match eIndex s i with
    | none => (s, if i < s.E.length then .rejected else .badOp)
    | some k =>
      match s.enums[k]? with
      | some m => ({ s with E := s.E.modify m (fun e => { e with inDb := false }), enums := eraseAt s.enums k }, .ok)
      | none => (s, .badOp)
  | .delete .group i =>
    match idIndex s.groups i with
    | none => (s, if i < s.G.length then .rejected else .badOp)
    | some k => ({ s with G := s.G.modify i (fun g => { g with inDb := false }), groups := eraseAt s.groups k }, .ok)
  | .delete .project _ | .deleteProject =>
    match s.project with
    | none => (s, .rejected)
    | some p => ({ s with P := s.P.set p false, project := none }, .ok)
  | .delete .sticky i | .deleteSticky i =>
    match idIndex s.sticky i with
    | none => (s, if i < s.N.length then .rejected else .badOp)
    | some k => ({ s with N := s.N.set i false, sticky := eraseAt s.sticky k }, .ok)
  | .delete .other _ => (s, .rejected)
  | .setName i n => if i < s.T.length then (setT s i (fun t => { t with name := n }), .ok) else (s, .badOp)
  | .setSchema i n => if i < s.T.length then (setT s i (fun t => { t with schema := n }), .ok) else (s, .badOp)
  | .setAlias i a => if i < s.T.length then (setT s i (fun t => { t with alias := a }), .ok) else (s, .badOp)

def run (s : St) (ops : List Op) : St := ops.foldl (fun s op => (step s op).1) s

end Cont
end PyDBML
