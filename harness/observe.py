"""Observation functions: canonical dumps of live PyDBML objects, through the public surface only.

`dump_db` produces the value tree of lean/PyDBMLModel/Model.lean (links as positions, resolved with
`is`).  `classify` maps exceptions to the small enum that is compared (never messages).
"""
import sys

sys.path.insert(0, '/repo')

import pyparsing as pp  # noqa: E402
import pydbml  # noqa: E402
import pydbml.exceptions as pex  # noqa: E402
from pydbml.classes import (Column, Enum, EnumItem, Expression, Index, Note, Project,  # noqa: E402
                            Reference, Table, TableGroup)
from pydbml.database import Database  # noqa: E402

try:
    from pydbml.classes import StickyNote  # type: ignore
except Exception:  # pragma: no cover
    from pydbml._classes.sticky_note import StickyNote  # type: ignore

LIB_EXC = tuple(getattr(pex, n) for n in dir(pex)
                if isinstance(getattr(pex, n), type) and issubclass(getattr(pex, n), Exception))


def classify(exc):
    """Exception -> class enum compared between model and implementation."""
    if isinstance(exc, pp.ParseBaseException):
        return 'syntax'
    if isinstance(exc, LIB_EXC):
        return 'lib:' + type(exc).__name__
    if isinstance(exc, SyntaxError):
        return 'noColumns'
    if isinstance(exc, RecursionError):
        return 'recursion'
    return 'internal:' + type(exc).__name__


def norm_class(c):
    """All non-contract exceptions compare as one class."""
    return 'internal' if c.startswith('internal') else c


class OutOfModel(Exception):
    pass


class NotADatabase(Exception):
    """a parse route returned something that is not a `Database`, or an attribute of the content holds an
    object that is not a plain value (e.g. a pyparsing result stored where a string belongs)"""


def _check_plain(x, path='db'):
    if x is None or isinstance(x, (str, bool, int)):
        return
    if isinstance(x, dict):
        for k, v in x.items():
            _check_plain(v, f'{path}.{k}')
        return
    if isinstance(x, list):
        for i, v in enumerate(x):
            _check_plain(v, f'{path}[{i}]')
        return
    raise NotADatabase(f'{path} holds a {type(x).__name__}')


def _idx_is(lst, obj):
    for i, x in enumerate(lst):
        if x is obj:
            return i
    return None


def note_text(n):
    if n is None:
        return None
    if isinstance(n, Note):
        return n.text
    return str(n)


def dump_default(v):
    if v is None:
        return None
    if isinstance(v, bool):
        return {'k': 'bool', 'v': v}
    if isinstance(v, int):
        return {'k': 'int', 'v': str(v)}
    if isinstance(v, float):
        return {'k': 'float', 'v': repr(v)}
    if isinstance(v, str):
        return {'k': 'str', 'v': v}
    if isinstance(v, Expression):
        return {'k': 'expr', 'v': v.text}
    raise OutOfModel(f'default of type {type(v).__name__}')


def dump_props(d):
    if not d:
        return []
    return [[str(k), str(v)] for k, v in d.items()]


def dump_column(c, db):
    if isinstance(c.type, Enum):
        i = _idx_is(db.enums, c.type) if db is not None else None
        typ = {'enum': i} if i is not None else {'schema': c.type.schema, 'name': c.type.name}
    else:
        if not isinstance(c.type, str):
            raise OutOfModel('column type is neither str nor Enum')
        typ = c.type
    return {
        'name': c.name, 'type': typ, 'unique': bool(c.unique), 'not_null': bool(c.not_null),
        'pk': bool(c.pk), 'autoinc': bool(c.autoinc), 'default': dump_default(c.default),
        'note': note_text(c.note) or '', 'comment': c.comment, 'props': dump_props(c.properties),
    }


def dump_index(ix, t):
    subs = []
    for s in ix.subjects:
        if isinstance(s, Column):
            i = _idx_is(t.columns, s)
            if i is None:
                raise OutOfModel('index subject column not in owning table')
            subs.append({'col': i})
        elif isinstance(s, Expression):
            subs.append({'expr': s.text})
        elif isinstance(s, str):
            subs.append({'raw': s})
        else:
            raise OutOfModel('index subject type')
    return {'subjects': subs, 'name': ix.name, 'unique': bool(ix.unique), 'type': ix.type,
            'pk': bool(ix.pk), 'note': note_text(ix.note) or '', 'comment': ix.comment}


def dump_table(t, db):
    return {
        'name': t.name, 'schema': t.schema, 'alias': t.alias,
        'columns': [dump_column(c, db) for c in t.columns],
        'indexes': [dump_index(i, t) for i in t.indexes],
        'note': note_text(t.note) or '', 'header_color': t.header_color, 'comment': t.comment,
        'abstract': bool(t.abstract), 'props': dump_props(t.properties),
    }


def dump_ref_side(cols, db):
    if not cols:
        raise OutOfModel('empty reference side')
    t = cols[0].table
    ti = _idx_is(db.tables, t)
    if ti is None:
        raise OutOfModel('reference table not in database')
    idx = []
    for c in cols:
        if c.table is not t:
            raise OutOfModel('reference side mixes tables')
        ci = _idx_is(t.columns, c)
        if ci is None:
            raise OutOfModel('reference column not in its table')
        idx.append(ci)
    return ti, idx


def dump_ref(r, db):
    t1, c1 = dump_ref_side(r.col1, db)
    t2, c2 = dump_ref_side(r.col2, db)
    return {'type': r.type, 't1': t1, 'col1': c1, 't2': t2, 'col2': c2, 'name': r.name,
            'comment': r.comment, 'on_update': r.on_update, 'on_delete': r.on_delete,
            'inline': bool(r._inline) if hasattr(r, '_inline') else bool(r.inline)}


def dump_enum(e):
    return {'name': e.name, 'schema': e.schema, 'comment': e.comment,
            'items': [{'name': i.name, 'note': note_text(i.note) or '', 'comment': i.comment}
                      for i in e.items]}


def dump_group(g, db):
    items = []
    for t in g.items:
        i = _idx_is(db.tables, t)
        if i is None:
            raise OutOfModel('group item not in database')
        items.append(i)
    return {'name': g.name, 'items': items, 'comment': g.comment,
            'note': note_text(g.note), 'color': g.color}


def dump_db(db):
    """Value tree of a Database (raises OutOfModel when links leave the database)."""
    from pydbml.database import Database
    if not isinstance(db, Database):
        raise NotADatabase(type(db).__name__)
    p = db.project
    d = _dump_db(db, p)
    _check_plain(d)
    return d


def _check_sections(db):
    """every section of a Database holds objects of its own kind only"""
    from pydbml.classes import Table, Reference, Enum, TableGroup, StickyNote
    for attr, cls in (('tables', Table), ('refs', Reference), ('enums', Enum), ('table_groups', TableGroup),
                      ('sticky_notes', StickyNote)):
        sec = getattr(db, attr)
        if not isinstance(sec, list):
            raise NotADatabase(f'{attr} is a {type(sec).__name__}')
        for x in sec:
            if not isinstance(x, cls):
                raise NotADatabase(f'{attr} holds a {type(x).__name__}')


def _dump_db(db, p):
    _check_sections(db)
    return {
        'tables': [dump_table(t, db) for t in db.tables],
        'refs': [dump_ref(r, db) for r in db.refs],
        'enums': [dump_enum(e) for e in db.enums],
        'groups': [dump_group(g, db) for g in db.table_groups],
        'sticky': [{'name': s.name, 'text': s.text} for s in db.sticky_notes],
        'project': None if p is None else {
            'name': p.name, 'items': dump_props(p.items), 'note': note_text(p.note) or '',
            'comment': p.comment},
        'allow_properties': bool(db.allow_properties),
    }


def object_state(root):
    """Attribute-level fingerprint of every pydbml object reachable from `root`: for each object its type, the names
    of its instance attributes and the plain values among them.  A cache written by a rendering shows up as a new or
    changed attribute even when the content dump is unchanged."""
    seen = {}
    stack = [root]
    while stack:
        o = stack.pop()
        if id(o) in seen or isinstance(o, (str, bytes, int, float, bool, type(None), type)):
            continue
        mod = getattr(type(o), '__module__', '') or ''
        if isinstance(o, (list, tuple, set, frozenset)):
            seen[id(o)] = ('seq', type(o).__name__, len(o))
            stack.extend(o)
        elif isinstance(o, dict):
            seen[id(o)] = ('dict', sorted(map(repr, o.keys())))
            stack.extend(o.values())
        elif mod.startswith('pydbml.'):
            d = vars(o) if hasattr(o, '__dict__') else {}
            seen[id(o)] = (type(o).__name__, sorted(d.keys()),
                           sorted((k, repr(v)) for k, v in d.items() if isinstance(v, (str, int, float, bool, type(None)))))
            stack.extend(d.values())
    return seen


def strip_comments(d):
    """Content dump without `comment` attributes (everything except C14 compares this)."""
    if isinstance(d, dict):
        return {k: strip_comments(v) for k, v in d.items() if k != 'comment'}
    if isinstance(d, list):
        return [strip_comments(x) for x in d]
    return d


def all_strings(d):
    if isinstance(d, str):
        yield d
    elif isinstance(d, dict):
        for v in d.values():
            yield from all_strings(v)
    elif isinstance(d, list):
        for v in d:
            yield from all_strings(v)


def run(fn):
    """-> ('ok', value) | ('err', class)."""
    try:
        return ('ok', fn())
    except RecursionError:
        return ('err', 'recursion')
    except Exception as e:  # noqa: BLE001
        return ('err', classify(e))
