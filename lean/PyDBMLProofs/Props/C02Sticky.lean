/-
C02/C01 — a round trip proved end to end on the smallest element: a database holding one sticky note
is rendered by the DBML renderer model and read back by the character-level parser model to the same
database (`sticky_roundtrip_partial`).  Partial: one sticky note, bare name, one-line text.
The symbolic-execution lemmas (`*_fail`, `*_ok`) are stated for any cursor and are reusable.
-/
import PyDBMLProofs.Props.C13Lex
namespace PyDBML
namespace C02
open Lex Grammar Build

/-! ### cursors -/

theorem skipWsList_head (p : Option Char) (x : Char) (r : Str) (hx : isWs x = false) :
    skipWsList p (x :: r) = (p, x :: r) := by
  simp [skipWsList, hx]

theorem skipWsList_spaces (p : Option Char) (n : Nat) (x : Char) (r : Str) (hx : isWs x = false) :
    (skipWsList p (List.replicate n ' ' ++ x :: r)).2 = x :: r := by
  induction n generalizing p with
  | zero => simp [skipWsList_head p x r hx]
  | succ n ih =>
    simp only [List.replicate_succ, List.cons_append]
    rw [skipWsList]
    simp only [isWs, decide_true, Bool.true_or, ↓reduceIte]
    exact ih _

theorem skipWs_rest_spaces (c : Cur) (n : Nat) (x : Char) (r : Str) (h : c.rest = List.replicate n ' ' ++ x :: r)
    (hx : isWs x = false) : (skipWs c).rest = x :: r := by
  unfold skipWs
  simp only [h]
  exact skipWsList_spaces _ n x r hx

theorem skipWs_rest_head (c : Cur) (x : Char) (r : Str) (h : c.rest = x :: r) (hx : isWs x = false) :
    (skipWs c).rest = x :: r := skipWs_rest_spaces c 0 x r (by simpa using h) hx

theorem skipWs_rest_nil (c : Cur) (h : c.rest = []) : (skipWs c).rest = [] := by
  unfold skipWs; simp [h, skipWsList]

@[simp] theorem skipWs_pastEnd (c : Cur) : (skipWs c).pastEnd = c.pastEnd := rfl

/-! ### primitives that fail -/

/-- what the next significant character is: `Next c x r` = after the whitespace skip the input is `x :: r` -/
def Next (c : Cur) (x : Char) (r : Str) : Prop := (skipWs c).rest = x :: r

theorem sym_fail (s : String) (c : Cur) (x : Char) (r : Str) (hn : Next c x r)
    (hs : startsWith (x :: r) s.toList = false) : sym s c = .fail := by
  unfold sym litRaw
  simp [show (skipWs c).rest = x :: r from hn, hs]

theorem sym_fail_nil (s : String) (c : Cur) (hn : (skipWs c).rest = []) (hs : s.toList ≠ []) : sym s c = .fail := by
  unfold sym litRaw
  cases hl : s.toList with
  | nil => exact absurd hl hs
  | cons a as => simp [hn, startsWith]

theorem sym_fail_pastEnd (s : String) (c : Cur) (hp : c.pastEnd = true) : sym s c = .fail := by
  unfold sym litRaw
  simp [hp]

theorem clit_fail (s : String) (c : Cur) (x : Char) (r : Str) (hn : Next c x r)
    (hs : startsWithCaseless (x :: r) s.toList = false) : clit s c = .fail := by
  unfold clit
  simp [show (skipWs c).rest = x :: r from hn, hs]

theorem clit_fail_pastEnd (s : String) (c : Cur) (hp : c.pastEnd = true) : clit s c = .fail := by
  unfold clit
  simp [hp]

theorem ckw_fail (s : String) (c : Cur) (x : Char) (r : Str) (hn : Next c x r)
    (hs : startsWithCaseless (x :: r) s.toList = false) : ckw s c = .fail := by
  unfold ckw
  simp [show (skipWs c).rest = x :: r from hn, hs]

theorem ckw_fail_pastEnd (s : String) (c : Cur) (hp : c.pastEnd = true) : ckw s c = .fail := by
  unfold ckw
  simp [hp]

theorem comment_fail (c : Cur) (x : Char) (r : Str) (hn : Next c x r) (hx : x ≠ '/') : comment c = .fail := by
  unfold comment
  simp only [show (skipWs c).rest = x :: r from hn]
  split
  · rfl
  · split
    · rename_i h; simp at h; exact absurd h.1 hx
    · rename_i h; simp at h; exact absurd h.1 hx
    · rfl

theorem comment_fail_nil (c : Cur) (hn : (skipWs c).rest = []) : comment c = .fail := by
  unfold comment
  simp only [hn]
  split <;> rfl

theorem comment_fail_pastEnd (c : Cur) (hp : c.pastEnd = true) : comment c = .fail := by
  unfold comment
  simp [hp]

/-! ### combinators on failing bodies -/

theorem manyF_fail {α} (p : P α) (c : Cur) (h : p c = .fail) : manyF p c = .ok [] c := by
  unfold manyF fuelOf
  rw [many]
  simp [h]

/-- the line-break / comment skippers stay put when the next character opens neither -/
theorem skipNl_stay (c : Cur) (h1 : sym "\n" c = .fail) (h2 : comment c = .fail) : skipNl c = .ok () c := by
  unfold skipNl
  simp only [bind, pbind]
  rw [manyF_fail]
  · rfl
  · simp [alt, h1, bind, pbind, h2]

theorem cBefore_stay (c : Cur) (h1 : sym "\n" c = .fail) (h2 : comment c = .fail) : cBefore c = .ok [] c := by
  unfold cBefore
  simp only [bind, pbind]
  rw [manyF_fail]
  · rfl
  · simp [alt, h1, bind, pbind, h2]

/-! ### primitives that succeed -/

theorem skipWsList_idem (p : Option Char) (s : Str) :
    skipWsList (skipWsList p s).1 (skipWsList p s).2 = skipWsList p s := by
  induction s generalizing p with
  | nil => simp [skipWsList]
  | cons x r ih =>
    by_cases hx : isWs x = true
    · rw [skipWsList]; simp only [hx, ↓reduceIte]; exact ih _
    · have hx' : isWs x = false := by simpa using hx
      rw [skipWsList_head p x r hx', skipWsList_head p x r hx']

theorem skipWs_idem (c : Cur) : skipWs (skipWs c) = skipWs c := by
  unfold skipWs
  simp only
  have := skipWsList_idem c.prev c.rest
  rw [this]

theorem skipWsList_len (p : Option Char) (s : Str) : (skipWsList p s).2.length ≤ s.length := by
  induction s generalizing p with
  | nil => simp [skipWsList]
  | cons x r ih =>
    rw [skipWsList]
    split
    · have := ih (some x); simp; omega
    · simp

theorem skipWs_len (c : Cur) : (skipWs c).rest.length ≤ c.rest.length := skipWsList_len _ _

/-- a one-character `Literal` -/
theorem sym_ok (s : String) (ch : Char) (hs : s.toList = [ch]) (c : Cur) (r : Str) (hn : Next c ch r)
    (hp : c.pastEnd = false) : ∃ c', sym s c = .ok () c' ∧ c'.rest = r ∧ c'.pastEnd = false := by
  refine ⟨advance (skipWs c) 1, ?_, ?_, ?_⟩
  · unfold sym litRaw
    simp [show (skipWs c).rest = ch :: r from hn, hs, hp, startsWith]
  · rw [C13.advance_rest, show (skipWs c).rest = ch :: r from hn]; rfl
  · rw [C13.advance_pastEnd]; exact hp

theorem clit_ok (s : String) (c : Cur) (pre r : Str) (hn : (skipWs c).rest = pre ++ r) (hl : pre.length = s.toList.length)
    (hm : startsWithCaseless (pre ++ r) s.toList = true) (hp : c.pastEnd = false) :
    ∃ c', clit s c = .ok () c' ∧ c'.rest = r ∧ c'.pastEnd = false := by
  refine ⟨advance (skipWs c) s.length, ?_, ?_, ?_⟩
  · unfold clit
    simp [hn, hm, hp]
  · rw [C13.advance_rest, hn]
    have : s.length = pre.length := by rw [hl]; exact Eq.symm String.length_toList
    rw [this]; simp
  · rw [C13.advance_pastEnd]; exact hp

theorem takeWhile_append_stop {α} (p : α → Bool) (l r : List α) (hl : l.all p = true)
    (hr : ∀ x, r.head? = some x → p x = false) : (l ++ r).takeWhile p = l := by
  induction l with
  | nil =>
    cases r with
    | nil => rfl
    | cons y ys => simp [List.takeWhile, hr y rfl]
  | cons x xs ih =>
    simp only [List.all_cons, Bool.and_eq_true] at hl
    simp [List.takeWhile, hl.1, ih hl.2]

/-- `name` reads a bare identifier up to the first character that cannot continue it -/
theorem name_ok (c : Cur) (nm r : Str) (hn : (skipWs c).rest = nm ++ r) (hne : nm ≠ [])
    (hall : nm.all isNameChar = true) (hstop : ∀ x, r.head? = some x → isNameChar x = false)
    (hp : c.pastEnd = false) : ∃ c', name c = .ok nm c' ∧ c'.rest = r ∧ c'.pastEnd = false := by
  have htw : (nm ++ r).takeWhile isNameChar = nm := takeWhile_append_stop _ _ _ hall hstop
  refine ⟨advance (skipWs c) nm.length, ?_, ?_, ?_⟩
  · unfold name
    simp only [skipWs_pastEnd, hp, Bool.false_eq_true, ↓reduceIte, hn, htw]
    cases nm with
    | nil => exact absurd rfl hne
    | cons a as => simp
  · rw [C13.advance_rest, hn]; simp
  · rw [C13.advance_pastEnd]; exact hp

/-- `string_literal` after blanks -/
theorem stringLiteral_ok (c : Cur) (t r : Str) (hn : (skipWs c).rest = '\'' :: (prepareTextForDbml t ++ '\'' :: r))
    (hp : c.pastEnd = false) (h1 : C13.oneLine t = true) (h3 : hasTriple t = false)
    (hr : t ≠ [] ∨ r.head? ≠ some '\'') :
    ∃ c', stringLiteral c = .ok t c' ∧ c'.rest = r ∧ c'.pastEnd = false := by
  obtain ⟨c', h, hrest, hpe⟩ := C13.stringLiteral_reads_one_line t r (skipWs c).prev h1 h3 hr
  refine ⟨c', ?_, hrest, hpe⟩
  have e : skipWs c = { prev := (skipWs c).prev, rest := '\'' :: (prepareTextForDbml t ++ '\'' :: r) } := by
    cases hc : skipWs c with
    | mk p rs pe =>
      have h1 : rs = '\'' :: (prepareTextForDbml t ++ '\'' :: r) := by simpa [hc] using hn
      have h2 : pe = false := by
        have := skipWs_pastEnd c
        rw [hc] at this; simpa [hp] using this
      simp [h1, h2]
  have : stringLiteral c = stringLiteral (skipWs c) := by
    unfold stringLiteral
    simp only [skipWs_idem]
  rw [this, e]
  exact h

theorem lineEnd_eof (c : Cur) (hn : (skipWs c).rest = []) (hp : c.pastEnd = false) :
    ∃ c', lineEnd c = .ok () c' ∧ c'.rest = [] ∧ c'.pastEnd = true := by
  refine ⟨{ skipWs c with pastEnd := true }, ?_, hn, rfl⟩
  unfold lineEnd
  simp [hp, hn]

theorem stringEnd_eof (c : Cur) (hn : (skipWs c).rest = []) : ∃ c', stringEnd c = .ok () c' := by
  refine ⟨{ skipWs c with pastEnd := true }, ?_⟩
  unfold stringEnd
  simp [hn]

/-- `_` over exactly one line break followed by something that is neither a line break nor a comment -/
theorem skipNl_one (c : Cur) (r : Str) (hn : Next c '\n' r) (hp : c.pastEnd = false)
    (hq : ∀ c1 : Cur, c1.rest = r → c1.pastEnd = false → sym "\n" c1 = .fail ∧ comment c1 = .fail) :
    ∃ c', skipNl c = .ok () c' ∧ c'.rest = r ∧ c'.pastEnd = false := by
  obtain ⟨c1, h1, hr1, hp1⟩ := sym_ok "\n" '\n' rfl c r hn hp
  obtain ⟨hf1, hf2⟩ := hq c1 hr1 hp1
  refine ⟨c1, ?_, hr1, hp1⟩
  unfold skipNl manyF fuelOf
  simp only [bind, pbind]
  have hlen : c1.rest.length ≠ c.rest.length := by
    have := skipWs_len c
    rw [show (skipWs c).rest = '\n' :: r from hn] at this
    rw [hr1]; simp at this; omega
  rw [many]
  simp only [alt, bind, pbind, h1, pure, ppure]
  simp only [hlen, false_and, decide_false, Bool.false_and, Bool.false_eq_true, ↓reduceIte]
  rw [many]
  simp [alt, bind, pbind, hf1, hf2]

/-! ### the rendering of a one-line sticky note -/

def Plain (t : Str) : Prop := ∀ c ∈ t, isLineBreak c = false ∧ c ≠ '\t'

theorem prepare_mem (t : Str) : ∀ c ∈ prepareTextForDbml t, c ∈ t ∨ c = '\\' := by
  fun_induction prepareTextForDbml t with
  | case1 r ih =>
    intro c hc
    simp only [List.mem_cons] at hc
    rcases hc with rfl | rfl | rfl | rfl | hc
    · right; rfl
    · left; simp
    · left; simp
    · left; simp
    · rcases ih c hc with h | h
      · left; simp [h]
      · right; exact h
  | case2 r hr ih =>
    intro c hc
    simp only [List.mem_cons] at hc
    rcases hc with rfl | rfl | hc
    · right; rfl
    · left; simp
    · rcases ih c hc with h | h
      · left; simp [h]
      · right; exact h
  | case3 r ih =>
    intro c hc
    simp only [List.mem_cons] at hc
    rcases hc with rfl | rfl | hc
    · right; rfl
    · left; simp
    · rcases ih c hc with h | h
      · left; simp [h]
      · right; exact h
  | case4 c r h1 h2 h3 ih =>
    intro x hx
    simp only [List.mem_cons] at hx
    rcases hx with rfl | hx
    · left; simp
    · rcases ih x hx with h | h
      · left; simp [h]
      · right; exact h
  | case5 => intro c hc; simp at hc

theorem splitLinesKeepAux_plain (cur s : Str) (hs : ∀ c ∈ s, isLineBreak c = false) (hne : cur ≠ [] ∨ s ≠ []) :
    splitLinesKeepAux cur s = [cur.reverse ++ s] := by
  induction s generalizing cur with
  | nil =>
    rcases hne with h | h
    · cases cur with
      | nil => exact absurd rfl h
      | cons a as => simp [splitLinesKeepAux]
    · exact absurd rfl h
  | cons x r ih =>
    have hx : isLineBreak x = false := hs x (by simp)
    have hxr : x ≠ '\r' := by intro e; subst e; simp [isLineBreak] at hx
    rw [splitLinesKeepAux.eq_def]
    split
    · rename_i heq; cases heq
    · rename_i heq; cases heq; exact absurd rfl hxr
    · rename_i cur' _ _ c' r' _ heq
      cases heq
      simp only [hx, Bool.false_eq_true, ↓reduceIte]
      rw [ih (x :: cur') (fun c hc => hs c (by simp [hc])) (Or.inl (by simp))]
      simp

theorem indent4_line (l : Str) (hl : ∀ c ∈ l, isLineBreak c = false) (x : Char) (r : Str) (hx : l = x :: r)
    (hsp : isSpaceChar x = false) : Dbml.indent4 l = [' ', ' ', ' ', ' '] ++ l := by
  unfold Dbml.indent4 textwrapIndent splitLinesKeep
  rw [splitLinesKeepAux_plain [] l hl (Or.inr (by rw [hx]; simp))]
  simp [hx, hsp]

def tail3 : Str := ['\n', '}']
def tail2 (t : Str) : Str := ' ' :: ' ' :: ' ' :: ' ' :: '\'' :: (prepareTextForDbml t ++ '\'' :: tail3)
def tail1 (t : Str) : Str := ' ' :: '{' :: '\n' :: tail2 t
def stickyText (name t : Str) : Str := 'N' :: 'o' :: 't' :: 'e' :: ' ' :: (name ++ tail1 t)

theorem renderSticky_plain (s : Sticky) (ht : Plain s.text) :
    Dbml.renderSticky s = stickyText s.name s.text := by
  unfold Dbml.renderSticky
  have hst : stickyText s.name s.text = lit "Note " ++ s.name ++ lit " {\n" ++ ([' ', ' ', ' ', ' '] ++ ('\'' :: prepareTextForDbml s.text ++ ['\''])) ++ lit "\n}" := by
    simp [stickyText, tail1, tail2, tail3, lit]
  rw [hst]
  have hnl : containsChar '\n' s.text = false := by
    simp only [containsChar, List.any_eq_false, beq_iff_eq]
    intro c hc e
    subst e
    have := (ht _ hc).1
    simp [isLineBreak] at this
  have hq : quoteString s.text = '\'' :: prepareTextForDbml s.text ++ ['\''] := by
    unfold quoteString; simp [hnl]
  rw [hq]
  rw [indent4_line ('\'' :: prepareTextForDbml s.text ++ ['\'']) ?_ '\'' _ rfl (by decide)]
  intro c hc
  simp only [List.cons_append, List.mem_cons, List.mem_append, List.mem_singleton] at hc
  rcases hc with rfl | hc | hc
  · decide
  · rcases prepare_mem _ c hc with h | rfl
    · exact (ht c h).1
    · decide
  · rcases hc with rfl | hc
    · decide
    · cases hc

theorem renderDb_sticky (ap : Bool) (s : Sticky) (ht : Plain s.text) :
    Dbml.renderDb { sticky := [s], allowProps := ap } = .ok (stickyText s.name s.text) := by
  unfold Dbml.renderDb Dbml.renderProjectList
  simp [bind, Except.bind, pure, Except.pure, joinWith, renderSticky_plain s ht]

/-! ### rules that do not start here -/

theorem tableRule_fail (props : Bool) (c : Cur) (hb : cBefore c = .ok [] c) (hk : ckw "table" c = .fail) :
    tableRule props c = .fail := by
  unfold tableRule; simp only [bind, pbind, hb, hk]

theorem refRule_fail (c : Cur) (hb : cBefore c = .ok [] c) (hk : clit "ref" c = .fail) : refRule c = .fail := by
  unfold refRule refShort refLong alt; simp only [bind, pbind, hb, hk]

theorem enumRule_fail (c : Cur) (hb : cBefore c = .ok [] c) (hk : clit "enum" c = .fail) : enumRule c = .fail := by
  unfold enumRule; simp only [bind, pbind, hb, hk]

theorem tableGroupRule_fail (c : Cur) (hb : cBefore c = .ok [] c) (hk : clit "TableGroup" c = .fail) :
    tableGroupRule c = .fail := by
  unfold tableGroupRule; simp only [bind, pbind, hb, hk]

theorem projectRule_fail (c : Cur) (hb : cBefore c = .ok [] c) (hk : clit "project" c = .fail) :
    projectRule c = .fail := by
  unfold projectRule; simp only [bind, pbind, hb, hk]

theorem stickyNoteRule_fail (c : Cur) (hb : cBefore c = .ok [] c) (hk : clit "note" c = .fail) :
    stickyNoteRule c = .fail := by
  unfold stickyNoteRule; simp only [bind, pbind, hb, hk]

/-- past the end of the input no element starts -/
theorem element_fail_pastEnd (props : Bool) (c : Cur) (hp : c.pastEnd = true) : element props c = .fail := by
  have hb : cBefore c = .ok [] c := cBefore_stay c (sym_fail_pastEnd _ c hp) (comment_fail_pastEnd c hp)
  unfold element alt
  simp only [bind, pbind, tableRule_fail props c hb (ckw_fail_pastEnd _ c hp),
    refRule_fail c hb (clit_fail_pastEnd _ c hp), enumRule_fail c hb (clit_fail_pastEnd _ c hp),
    tableGroupRule_fail c hb (clit_fail_pastEnd _ c hp), projectRule_fail c hb (clit_fail_pastEnd _ c hp),
    stickyNoteRule_fail c hb (clit_fail_pastEnd _ c hp)]

theorem skipNl_pastEnd (c : Cur) (hp : c.pastEnd = true) : skipNl c = .ok () c :=
  skipNl_stay c (sym_fail_pastEnd _ c hp) (comment_fail_pastEnd c hp)

/-! ### the sticky-note rule on the rendered text -/

theorem nameChar_facts (x : Char) (h : isNameChar x = true) : isWs x = false ∧ x ≠ '\n' ∧ x ≠ '/' := by
  refine ⟨?_, ?_, ?_⟩
  · cases hw : isWs x with
    | false => rfl
    | true =>
      exfalso
      simp only [isWs, Bool.or_eq_true, decide_eq_true_eq] at hw
      rcases hw with (rfl | rfl) | rfl <;> simp [isNameChar, isAlnum, isAlpha, isDigit] at h
  · rintro rfl; simp [isNameChar, isAlnum, isAlpha, isDigit] at h
  · rintro rfl; simp [isNameChar, isAlnum, isAlpha, isDigit] at h

/-- a cursor whose next significant character is `x`: no line break, no comment starts here -/
theorem quiet_of_next (c : Cur) (x : Char) (r : Str) (hn : Next c x r) (h1 : x ≠ '\n') (h2 : x ≠ '/') :
    sym "\n" c = .fail ∧ comment c = .fail := by
  refine ⟨sym_fail _ c x r hn ?_, comment_fail c x r hn h2⟩
  show startsWith (x :: r) ['\n'] = false
  simp [startsWith, Ne.symm h1]

theorem stickyNoteRule_ok (c : Cur) (name t : Str) (hc : c.rest = stickyText name t) (hp : c.pastEnd = false)
    (hne : name ≠ []) (hname : name.all isNameChar = true)
    (h1 : C13.oneLine t = true) (h3 : hasTriple t = false) :
    ∃ c', stickyNoteRule c = .ok { name := name, text := t } c' ∧ c'.rest = [] ∧ c'.pastEnd = true := by
  obtain ⟨n0, ns, rfl⟩ : ∃ n0 ns, name = n0 :: ns := by
    cases name with
    | nil => exact absurd rfl hne
    | cons a as => exact ⟨a, as, rfl⟩
  have hn0 : isNameChar n0 = true := by simp only [List.all_cons, Bool.and_eq_true] at hname; exact hname.1
  obtain ⟨hn0w, hn0n, hn0s⟩ := nameChar_facts n0 hn0
  -- 0. nothing before the keyword
  have hN : Next c 'N' ('o' :: 't' :: 'e' :: ' ' :: ((n0 :: ns) ++ tail1 t)) :=
    skipWs_rest_head c 'N' _ (by rw [hc]; rfl) (by decide)
  obtain ⟨q1, q2⟩ := quiet_of_next c 'N' _ hN (by decide) (by decide)
  have hb : cBefore c = .ok [] c := cBefore_stay c q1 q2
  -- 1. the keyword
  obtain ⟨c1, hk, hr1, hp1⟩ := clit_ok "note" c ['N', 'o', 't', 'e'] (' ' :: ((n0 :: ns) ++ tail1 t)) hN
    (by decide) (by simp [startsWithCaseless]; decide) hp
  -- 2. the name
  have hN1 : Next c1 n0 (ns ++ tail1 t) := skipWs_rest_spaces c1 1 n0 _ (by rw [hr1]; rfl) hn0w
  obtain ⟨q3, q4⟩ := quiet_of_next c1 n0 _ hN1 hn0n hn0s
  have hs1 : skipNl c1 = .ok () c1 := skipNl_stay c1 q3 q4
  obtain ⟨c2, hnm, hr2, hp2⟩ := name_ok c1 (n0 :: ns) (tail1 t) hN1 (by simp) hname
    (by intro x hx; simp [tail1] at hx; subst hx; decide) hp1
  -- 3. the brace
  have hN2 : Next c2 '{' ('\n' :: tail2 t) := skipWs_rest_spaces c2 1 '{' _ (by rw [hr2]; rfl) (by decide)
  obtain ⟨q5, q6⟩ := quiet_of_next c2 '{' _ hN2 (by decide) (by decide)
  have hs2 : skipNl c2 = .ok () c2 := skipNl_stay c2 q5 q6
  obtain ⟨c3, hbr, hr3, hp3⟩ := sym_ok "{" '{' rfl c2 _ hN2 hp2
  -- 4. the line break, the text
  have hN3 : Next c3 '\n' (tail2 t) := skipWs_rest_head c3 '\n' _ hr3 (by decide)
  obtain ⟨c4, hs3, hr4, hp4⟩ := skipNl_one c3 (tail2 t) hN3 hp3 (by
    intro d hd _
    have : Next d '\'' (prepareTextForDbml t ++ '\'' :: tail3) := skipWs_rest_spaces d 4 '\'' _ (by rw [hd]; rfl) (by decide)
    exact quiet_of_next d '\'' _ this (by decide) (by decide))
  have hN4 : (skipWs c4).rest = '\'' :: (prepareTextForDbml t ++ '\'' :: tail3) :=
    skipWs_rest_spaces c4 4 '\'' _ (by rw [hr4]; rfl) (by decide)
  obtain ⟨c5, hstr, hr5, hp5⟩ := stringLiteral_ok c4 t tail3 hN4 hp4 h1 h3 (Or.inr (by simp [tail3]))
  -- 5. line break, closing brace, end
  have hN5 : Next c5 '\n' ['}'] := skipWs_rest_head c5 '\n' _ hr5 (by decide)
  obtain ⟨c6, hs5, hr6, hp6⟩ := skipNl_one c5 ['}'] hN5 hp5 (by
    intro d hd _
    have : Next d '}' [] := skipWs_rest_head d '}' _ hd (by decide)
    exact quiet_of_next d '}' _ this (by decide) (by decide))
  have hN6 : Next c6 '}' [] := skipWs_rest_head c6 '}' _ hr6 (by decide)
  obtain ⟨c7, hcl, hr7, hp7⟩ := sym_ok "}" '}' rfl c6 _ hN6 hp6
  have hN7 : (skipWs c7).rest = [] := skipWs_rest_nil c7 hr7
  obtain ⟨c8, hle, hr8, hp8⟩ := lineEnd_eof c7 hN7 hp7
  have hend : endRule c7 = .ok () c8 := by
    unfold endRule alt
    simp only [bind, pbind, manyF_fail comment c7 (comment_fail_nil c7 hN7), hle]
  refine ⟨c8, ?_, hr8, hp8⟩
  unfold stickyNoteRule
  simp only [bind, pbind, hb, hk, hs1, hnm, hs2, cut, hbr, hs3, hstr, hs5, hcl, hend, pure, ppure]

/-! ### the document, the build, the round trip -/

theorem expandTabsAux_plain (col : Nat) (s : Str) (h : ∀ c ∈ s, c ≠ '\t') : expandTabsAux col s = s := by
  induction s generalizing col with
  | nil => simp [expandTabsAux]
  | cons x r ih =>
    have hx : x ≠ '\t' := h x (by simp)
    rw [expandTabsAux.eq_def]
    split
    · rename_i heq; cases heq
    · rename_i heq; cases heq; exact absurd rfl hx
    · rename_i heq
      cases heq
      split <;> simp [ih _ (fun c hc => h c (by simp [hc]))]

theorem swc_ne (x : Char) (r : Str) (s : String) (k : Char) (ks : Str) (hs : s.toList = k :: ks)
    (h : (pyUpper1 k == pyUpper1 x) = false) : startsWithCaseless (x :: r) s.toList = false := by
  rw [hs]; simp [startsWithCaseless, h]

theorem nameChar_not_tab (x : Char) (h : isNameChar x = true) : x ≠ '\t' := by
  rintro rfl; simp [isNameChar, isAlnum, isAlpha, isDigit] at h

theorem stickyText_no_tab (name t : Str) (hname : name.all isNameChar = true) (ht : Plain t) :
    ∀ c ∈ stickyText name t, c ≠ '\t' := by
  intro c hc
  have e : stickyText name t = ['N', 'o', 't', 'e', ' '] ++ name ++ [' ', '{', '\n', ' ', ' ', ' ', ' ', '\'']
      ++ prepareTextForDbml t ++ ['\'', '\n', '}'] := by simp [stickyText, tail1, tail2, tail3]
  rw [e] at hc
  simp only [List.mem_append] at hc
  rcases hc with (((h | h) | h) | h) | h
  · exact (by decide : ∀ c ∈ ['N', 'o', 't', 'e', ' '], c ≠ '\t') c h
  · exact nameChar_not_tab c (by simp only [List.all_eq_true] at hname; exact hname c h)
  · exact (by decide : ∀ c ∈ [' ', '{', '\n', ' ', ' ', ' ', ' ', '\''], c ≠ '\t') c h
  · rcases prepare_mem _ c h with h' | rfl
    · exact (ht c h').2
    · decide
  · exact (by decide : ∀ c ∈ ['\'', '\n', '}'], c ≠ '\t') c h

theorem parseDoc_sticky (ap : Bool) (name t : Str) (hne : name ≠ []) (hname : name.all isNameChar = true)
    (ht : Plain t) (h3 : hasTriple t = false) :
    ∃ c', parseDoc ap (stickyText name t) = .ok [Bp.Elem.sticky { name := name, text := t }] c' := by
  have h1 : C13.oneLine t = true := by
    simp only [C13.oneLine, Bool.not_eq_true', List.any_eq_false, Bool.or_eq_true, decide_eq_true_eq, not_or]
    intro c hc
    have := (ht c hc).1
    constructor <;> (rintro rfl; simp [isLineBreak] at this)
  unfold parseDoc expandTabs
  rw [expandTabsAux_plain 0 _ (stickyText_no_tab name t hname ht)]
  let c0 : Cur := { rest := stickyText name t }
  obtain ⟨c8, hst, hr8, hp8⟩ := stickyNoteRule_ok c0 name t rfl rfl hne hname h1 h3
  -- the first element is the sticky note
  have hN : Next c0 'N' ('o' :: 't' :: 'e' :: ' ' :: (name ++ tail1 t)) := skipWs_rest_head c0 'N' _ rfl (by decide)
  obtain ⟨q1, q2⟩ := quiet_of_next c0 'N' _ hN (by decide) (by decide)
  have hb : cBefore c0 = .ok [] c0 := cBefore_stay c0 q1 q2
  have hel : element ap c0 = .ok (Bp.Elem.sticky { name := name, text := t }) c8 := by
    unfold element alt
    simp only [bind, pbind,
      tableRule_fail ap c0 hb (ckw_fail _ c0 _ _ hN (swc_ne 'N' _ "table" 't' _ rfl (by decide))),
      refRule_fail c0 hb (clit_fail _ c0 _ _ hN (swc_ne 'N' _ "ref" 'r' _ rfl (by decide))),
      enumRule_fail c0 hb (clit_fail _ c0 _ _ hN (swc_ne 'N' _ "enum" 'e' _ rfl (by decide))),
      tableGroupRule_fail c0 hb (clit_fail _ c0 _ _ hN (swc_ne 'N' _ "TableGroup" 'T' _ rfl (by decide))),
      projectRule_fail c0 hb (clit_fail _ c0 _ _ hN (swc_ne 'N' _ "project" 'p' _ rfl (by decide))),
      hst, pure, ppure]
  have hmany : manyF (element ap) c0 = .ok [Bp.Elem.sticky { name := name, text := t }] c8 := by
    unfold manyF fuelOf
    have hlen : c8.rest.length ≠ c0.rest.length := by
      rw [hr8]; simp [c0, stickyText]
    rw [many]
    simp only [hel, hlen, false_and, decide_false, Bool.false_and, Bool.false_eq_true, ↓reduceIte]
    rw [many]
    simp [element_fail_pastEnd ap c8 hp8]
  obtain ⟨c9, hse⟩ := stringEnd_eof c8 (skipWs_rest_nil c8 hr8)
  refine ⟨c9, ?_⟩
  show document ap c0 = _
  unfold document
  simp only [bind, pbind, hmany, skipNl_pastEnd c8 hp8, hse, pure, ppure]

/-- **C02 on the smallest element, end to end (renderer model ∘ parser model = identity).**
    A database holding one sticky note whose name is a bare identifier and whose text is one normalised
    line (no line-break character, no tab, no triple quote) is rendered to DBML and parsed back - through
    the character-level grammar model and the build model - to exactly the same database. -/
theorem sticky_roundtrip_partial (ap : Bool) (s : Sticky)
    (hne : s.name ≠ []) (hname : s.name.all isNameChar = true)
    (ht : Plain s.text) (h3 : hasTriple s.text = false) (hnorm : norm s.text = s.text) :
    ∃ text, Dbml.renderDb { sticky := [s], allowProps := ap } = .ok text
      ∧ Build.parse ap text = .ok { sticky := [s], allowProps := ap } := by
  refine ⟨stickyText s.name s.text, renderDb_sticky ap s ht, ?_⟩
  obtain ⟨c', hp⟩ := parseDoc_sticky ap s.name s.text hne hname ht h3
  unfold Build.parse
  have hbom : removeBom (stickyText s.name s.text) = stickyText s.name s.text := by
    simp [removeBom, stickyText]
  rw [hbom, hp]
  simp [buildDatabase, enumBps, tableBps, groupBps, stickyBps, projectBp, refBlueprints, buildProject, buildSticky,
    bind, Except.bind, pure, Except.pure, hnorm]

/-- non-vacuity: a concrete sticky note meets the decidable hypotheses -/
example : (lit "todo_1") ≠ [] ∧ (lit "todo_1").all isNameChar = true ∧ hasTriple (lit "it's a \\ note") = false
    ∧ norm (lit "it's a \\ note") = lit "it's a \\ note" := by decide

end C02
end PyDBML
