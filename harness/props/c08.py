"""C08 — parsing and rendering never fail with an internal error."""
import json
import random
import sys

from harness import ref_text as RT
from harness import core, gen_db as GD, gen_text as GT, impl_text as IT, observe as O, speller as SP
from harness import parse_common as PC
from harness.driver import Driver, DriverError

sys.path.insert(0, '/repo')
from pydbml import PyDBML  # noqa: E402

PID = 'C08'
THEOREMS = ['PyDBML.C08.parse_outcome', 'PyDBML.C08.parseDoc_raises', 'PyDBML.C08.numberValue_raises_only_long',
            'PyDBML.C08.buildDatabase_error', 'PyDBML.C08.build_wellLinked', 'PyDBML.C08.sql_total', 'PyDBML.C08.parsed_sql_total', 'PyDBML.C08.dbml_total', 'PyDBML.C08.parsed_dbml_total_partial',
            'PyDBML.C08.dbml_raises_name_with_newline', 'PyDBML.C08.dbml_raises_inline_composite']
MODULES = ['PyDBMLProofs.Hoare', 'PyDBMLProofs.Props.C08', 'PyDBMLProofs.Props.C08Render', 'PyDBMLProofs.Props.C08Dbml']

_TWO = 'Table users {\n  id int [pk]\n}\nTable orders {\n  id int [pk]\n  user_id int\n}\n'
# comments with format braces above / behind references of every form (round 11)
BRACE_COMMENT_DOCS = [
    _TWO + '// payload looks like {"user": 1}\nRef: orders.user_id > users.id\n',
    _TWO + '// see {ticket} for the reason\nRef fk_orders_users {\n  orders.user_id > users.id [delete: cascade]\n}\n',
    _TWO + '// join { table\nRef: orders.user_id <> users.id\n',
    _TWO + 'Ref: orders.user_id < users.id // behind {c} }\n',
    'Table users {\n  id int [pk]\n}\nTable orders {\n  id int [pk]\n  user_id int [ref: > users.id] // inline {0} {\n}\n',
    '// table {t}\nTable t {\n  // column {c}\n  id int [note: \'{n}\']\n  indexes {\n    // index {i}\n    id [name: \'{x}\']\n  }\n}\n// enum {e}\nEnum e {\n  // item {i}\n  a [note: \'{}\']\n}\n',
]

SPECIAL = BRACE_COMMENT_DOCS + [
    '', '\n', '   ', '// only a comment', '/* block */', '/* unterminated', '﻿', '﻿Table t {\n id int\n}',
    '﻿﻿Table t {\n id int\n}', 'Table t {\n id int [note: \'   \']\n}', "Table t {\n id int\n Note: '''\n\n'''\n}",
    "Note n {\n '  '\n}", "Note n {\n ''\n}", 'Table t {\n id "a.b.c"\n}', 'Table t {\n id "a.b"\n}', 'Table t {\n id a.b\n}',
    'Table "t.u" {\n id int\n}', 'Table t {\n "a{b}" int [ref: > t."a{b}"]\n}', 'Table "a}" {\n id int\n}\nRef: "a}".id > "a}".id',
    'Table t {\n id int [default: ' + '9' * 4400 + ']\n}', 'Table t {\n id int [default: 1.' + '0' * 400 + '1]\n}',
    'Project "a\\nb" {\n}', 'TableGroup "a\\nb" {\n}\n', 'Note "a\\nb" {\n \'x\'\n}\n', 'Note "a b" {\n \'x\'\n}\n', 'Note "" {\n \'x\'\n}\n',
    'Note "a\\tb" {\n \'x\'\n}\nNote "q\\"q" {\n \'y\'\n}\n', 'Table t {\n id int\n}\nRef "r\\nx": t.id > t.id\n', 'Table t {\n id int\n indexes {\n id [name: "i\\nx"]\n }\n}\n', 'Table "a\\nb" {\n "c\\nd" int\n}', 'Enum "e\\nf" {\n "i\\nj"\n}',
    'Table t {\n id int [default: `a\nb`]\n}', 'Table t {\n id int(' + '(' * 40 + ')' * 40 + ')\n}',
    "Table t {\n id int\n indexes {\n  (id, `x`) [name: '']\n }\n}", "Table t {\n id int [default: '']\n}",
    'Table t {\n id int [note: \'\\\'\']\n}', "Ref: a.b > c.d", "Ref: t.(a,b) > t.(c)", 'Table t {\n id int\n}\nRef: t.() > t.id',
    'Table t {\n id int\n}\nRef: t.("") > t.id', 'Table t {\n "" int\n}', 'Table "" {\n id int\n}', 'Enum e {\n ""\n}',
    'TableGroup g {\n ""\n}', 'TableGroup g {\n a.b.c\n}\n', 'Table t {\n id int [ref: > a.b.c.d]\n}',
    'Table t {\n id int\n Note: \'x\'\n Note: \'y\'\n}', 'Table t {\n id int\n indexes {\n id\n }\n indexes {\n id\n }\n}',
    'Table t {\n id int [default: null, default: 1, note: \'a\', note: \'b\']\n}', 'Table t [note: \'s\', note: \'t\'] {\n id int\n}',
    'Table t {\n id int [pk, pk, unique, unique, not null, null]\n}', 'Table t {\n id int unique pk unique\n}',
    'Project p {\n k: \'v\'\n k: \'w\'\n Note: \'a\'\n Note { \'b\' }\n}', 'Project p {\n}\nProject q {\n}',
    'Table t {\n id int\n}\nTableGroup g {\n t\n Note: \'a\'\n Note { \'b\' }\n}',
    'Table t {\n a int\n b int\n}\nTable u {\n x int [ref: > t."a,b"]\n}\n', 'Table t {\n a int\n b int\n}\nRef: t."a,b" > t.(a, b)\n',
    'Table "t{" {\n "a}" "ty{0}"\n}\nTable "u{x}" {\n "b{" "{}"\n}\nRef "n{}": "t{"."a}" <> "u{x}"."b{"\n',
    'Table "s{".t {\n "{a}" int\n "{0}" int\n}\nRef: "s{".t.("{a}", "{0}") <> "s{".t.("{0}", "{a}") [delete: cascade]\n',
    'Table "t{" {\n "a}" "ty{0}" [note: \'{n}\', default: \'{d}\']\n indexes {\n  "a}" [name: \'{i}\', note: \'{}\']\n }\n Note: \'{t}\'\n}\nEnum "e{" {\n "i}"\n}\n',
    'Table t {\n a int\n "(a)" int [ref: - t."(a)"]\n}\n', 'Table t {\n a int\n " a " int\n}\nRef: t." a " > t.a\n',
    # a comment at every place where one may stand (one place per document: a syntax error must not hide the others)
    'Enum e {\n a // the lowest\n b\n}\nTable t {\n id e\n}', 'Enum e {\n a /* blk */\n b [note: \'n\'] // after settings\n}',
    '// above\nEnum e {\n // above item\n a\n // before close\n}', 'Table t {\n id int // after type\n x int [pk] // after settings\n}',
    'Table t {\n id int /* blk */ [not null]\n}', 'Table t {\n id int\n indexes {\n id // after index\n (id) [unique] // after settings\n }\n}',
    'Table t {\n id int\n indexes {\n // above index\n id\n }\n}', 'Table t {\n id int\n}\nRef: t.id > t.id // after ref\n',
    'Table t {\n id int\n}\n// above ref\nRef r {\n t.id - t.id // inside\n}\n', 'Table t {\n id int\n}\nTableGroup g {\n t // after member\n}',
    'Project p {\n k: \'v\' // after item\n}', '// above project\nProject p {\n Note: \'n\' // after note\n}',
    'Table t { // after brace\n id int\n} // after table', '// above\nTable t {\n // inside\n id int\n // before close\n}',
    'Note s {\n \'x\' // after text\n}', '// above note\nNote s {\n \'x\'\n}', 'Table t {\n id int\n Note: \'tn\' // after note\n}',
    'Table t as T // after alias\n{\n id int\n}', 'Table t [headercolor: #fff] // after settings\n{\n id int\n}',
]


def render_all(db):
    """every rendering of a parsed database -> list of (name, exception class)"""
    bad = []

    def t(name, f):
        r = O.run(f)
        if r[0] != 'ok':
            bad.append((name, r[1]))
    t('db.sql', lambda: db.sql)
    t('db.dbml', lambda: db.dbml)
    for tb in db.tables:
        t('table.sql', lambda: tb.sql)
        t('table.dbml', lambda: tb.dbml)
        for c in tb.columns:
            t('column.sql', lambda: c.sql)
            t('column.dbml', lambda: c.dbml)
            t('column.note.sql', lambda: c.note.sql)
        for i in tb.indexes:
            t('index.sql', lambda: i.sql)
            t('index.dbml', lambda: i.dbml)
        t('table.note.dbml', lambda: tb.note.dbml)
    for e in db.enums:
        t('enum.sql', lambda: e.sql)
        t('enum.dbml', lambda: e.dbml)
        for i in e.items:
            t('enum_item.sql', lambda: i.sql)
            t('enum_item.dbml', lambda: i.dbml)
    for r in db.refs:
        t('ref.sql', lambda: r.sql)
        t('ref.dbml', lambda: r.dbml)
    for g in db.table_groups:
        t('group.dbml', lambda: g.dbml)
    for s in db.sticky_notes:
        t('sticky.dbml', lambda: s.dbml)
    if db.project is not None:
        t('project.dbml', lambda: db.project.dbml)
    return bad


def run_text(job):
    text, props = job
    try:
        db = PyDBML(text, allow_properties=props)
    except RecursionError:
        return {'parse': 'recursion'}
    except Exception as e:  # noqa: BLE001
        return {'parse': O.classify(e)}
    from pydbml.database import Database
    if not isinstance(db, Database):
        return {'parse': 'internal:NotADatabase(' + type(db).__name__ + ')'}
    out = {'parse': 'ok', 'render': render_all(db)}
    try:
        out['dump'] = O.dump_db(db)
    except O.OutOfModel:
        out['dump'] = None
    except O.NotADatabase:
        out['dump'] = None      # the renderings decide (a non-string attribute makes them raise)
    return out


def gen_inputs(ctx):
    rng = ctx.rng
    quick = not ctx.thorough
    jobs = [(s, False) for s in SPECIAL] + [(s, True) for s in SPECIAL]
    base = [t for _, t in GT.corpus() if len(t) < 3000]
    for k in range(40):
        r2 = random.Random(f'{ctx.seed}:c08:{k}')
        spec = SP.normalise_for_spelling(GD.gen_spec(r2, wild=False, max_tables=3), RT.ref_norm)
        if SP.spellable(spec):
            base.append(SP.spell(spec, r2, {'varied': True})[0])
    # wild renderings: API-built databases with odd names rendered to DBML give text with odd tokens
    for k in range(60 if quick else 600):
        r2 = random.Random(f'{ctx.seed}:c08w:{k}')
        spec = GD.gen_spec(r2, wild=True, max_tables=3)
        try:
            db, _ = GD.build(spec)
            jobs.append((db.dbml, spec['allow_properties']))
        except Exception:  # noqa: BLE001
            pass
    # brace-ified documents: one bare identifier replaced everywhere by a quoted one containing format braces
    import re as _re
    for k in range(80 if quick else 1500):
        r2 = random.Random(f'{ctx.seed}:c08b:{k}')
        b = r2.choice(base)
        words = sorted(set(_re.findall(r'(?<![\w"\'`#.])[A-Za-z_][A-Za-z0-9_]*(?![\w"\'`:(])', b)))
        words = [w for w in words if w.lower() not in ('table', 'ref', 'enum', 'tablegroup', 'project', 'note', 'indexes', 'as', 'null', 'true', 'false',
                                                       'pk', 'unique', 'increment', 'not', 'primary', 'key', 'cascade', 'restrict', 'set', 'default', 'no', 'action')]
        if not words:
            continue
        for w in r2.sample(words, min(len(words), r2.randint(1, 3))):
            q = '"' + w + r2.choice(['{', '}', '{}', '{0}', '{c}', '{{']) + '"'
            b = _re.sub(r'(?<![\w"\'`#.:])' + w + r'(?![\w"\'`:(])', lambda m: q, b)
        jobs.append((b.replace('> ', r2.choice(['> ', '<> ', '<> ', '- '])), r2.random() < 0.3))
    # comments with format braces at every place a comment is stored: above each element, trailing lines inside bodies
    BRC = ['// payload looks like {"user": 1}', '// see {ticket}', '// join { table', '// } {c} {0} {{', '// {}']
    for k in range(60 if quick else 1000):
        r2 = random.Random(f'{ctx.seed}:c08c:{k}')
        b = r2.choice(base)
        out = []
        for ln in b.split('\n'):
            st = ln.strip()
            if _re.match(r'(?i)(table|ref|enum|tablegroup|project)\b', st) and r2.random() < 0.7:
                out.append(r2.choice(BRC))
            if st and _re.search(r'[\w\]"]$', st) and not st.startswith(('//', '/*', "'")) and "'''" not in st and r2.random() < 0.3:
                ln = ln + ' ' + r2.choice(BRC)
            out.append(ln)
        jobs.append(('\n'.join(out), r2.random() < 0.3))
    # value slots: short strings over the characters numbers, words and quotes are made of, written where the grammar
    # expects a VALUE (a default, type arguments, a colour, an index type): whatever they are, the outcome is a database
    # or a parse error
    alpha = list('019.eE+-xn_') + ["'", '"', '`', '(', ')', ' ', '#', 't', 'r', 'u', 'l', 'f', 'a', 's']
    slots = ['Table t {\n  c int [default: %s]\n}\n', 'Table t {\n  c int [default:%s, unique]\n}\n', 'Table t {\n  c varchar(%s)\n}\n',
             'Table t [headercolor: #%s] {\n  c int\n}\n', 'Table t {\n  c int\n  indexes {\n    c [type: %s]\n  }\n}\n',
             'Table t {\n  c int [default: %s] // x\n}\n']
    vals = set()
    if quick:
        r3 = random.Random(f'{ctx.seed}:c08v')
        numeric = list('019.eE+-')
        for _ in range(450):
            vals.add(''.join(r3.choice(numeric) for _ in range(r3.randint(1, 5))))
        for _ in range(250):
            vals.add(''.join(r3.choice(alpha) for _ in range(r3.randint(1, 4))))
    else:
        import itertools as _it
        for n_ in range(1, 5):
            for tup in _it.product('019.eE+-', repeat=n_):
                vals.add(''.join(tup))
        r3 = random.Random(f'{ctx.seed}:c08v')
        for _ in range(6000):
            vals.add(''.join(r3.choice(alpha) for _ in range(r3.randint(1, 5))))
    for k, v in enumerate(sorted(vals)):
        jobs.append((slots[0] % v, False))
        jobs.append((slots[1 + k % (len(slots) - 1)] % v, k % 7 == 0))
    # documents cut off at a token boundary (with and without a final line break): the error sits at the end of the input
    for k in range(30 if quick else 400):
        r4 = random.Random(f'{ctx.seed}:c08t:{k}')
        toks4 = GT.tokens(r4.choice(base))
        for _ in range(12):
            cut = r4.randrange(1, len(toks4) + 1)
            pre = ''.join(toks4[:cut])
            jobs.append((pre.rstrip('\n') + r4.choice(['', '\n', '\n\n', ' \n']), r4.random() < 0.3))
    n = 5000 if quick else 120000
    for _ in range(n):
        k = rng.random()
        if k < 0.75:
            t = GT.mutate(rng, rng.choice(base), rng.randint(1, 4))
        elif k < 0.85:
            t = GT.soup(rng, rng.randint(1, 14))
        elif k < 0.93:
            # splice a special fragment into a valid document
            b = rng.choice(base)
            frag = rng.choice(["'   '", "'''\n  \n'''", '"a.b.c"', '"x{y}"', '"a\\nb"', '9' * rng.choice([1, 30, 4301]), "''", '``', '"\\x"', '#', '()', '(,)',
                               'note: \'\\\\\'', '.', '..', 'a.b.c.d', '"."', "'\\", 'ſet null', 'nıll', '"id,x"', '"(id)"', '" id "', '"id, id"'])
            toks = GT.tokens(b)
            i = rng.randrange(len(toks) + 1)
            if rng.random() < 0.5 and toks:
                toks[min(i, len(toks) - 1)] = frag
            else:
                toks.insert(i, frag)
            t = ''.join(toks)
        else:
            t = ''.join(chr(rng.choice([rng.randrange(32, 127), rng.randrange(0, 0x300), 10, 32, 39, 34, 92, 123, 125, 91, 93]))
                        for _ in range(rng.randint(1, 40)))
        if not any(0xD800 <= ord(ch) <= 0xDFFF for ch in t):
            jobs.append((t, rng.random() < 0.5))
    return jobs


def main(tier, seed):
    ctx = core.Ctx(PID, tier, seed, 'proof', THEOREMS, MODULES)
    ctx.build()
    problems = ctx.audit() if ctx.build_ok else ['lake build failed']
    drv = None
    try:
        drv = Driver()
    except DriverError as e:
        ctx.notes.append(str(e))
    jobs = gen_inputs(ctx)
    res = core.pmap(run_text, jobs)
    model = drv.ask_many({'op': 'parse', 'text': t, 'allow_properties': p} for t, p in jobs) if drv else None
    msql = mdbml = None
    ok_idx = [k for k, r in enumerate(res) if r['parse'] == 'ok' and r.get('dump') is not None]
    if drv is not None:
        msql = dict(zip(ok_idx, drv.ask_many({'op': 'sql', 'db': res[k]['dump']} for k in ok_idx)))
        mdbml = dict(zip(ok_idx, drv.ask_many({'op': 'dbml', 'db': res[k]['dump']} for k in ok_idx)))
    for k, ((t, p), r) in enumerate(zip(jobs, res)):
        cls = r['parse']
        ctx.case(core.h([t, p]), True, sample={'text': t[:200], 'parse': cls} if k % 1500 == 7 else None)
        ctx.count('parse:' + cls.split(':')[0])
        if cls == 'recursion':
            continue
        if cls.startswith('internal'):
            reason = None
            if cls == 'internal:ValueError' and any(len(w) > 4300 for w in __import__('re').findall(r'[0-9]+', t)):
                reason = 'HugeInt'
            ctx.fail(f'parsing escapes with {cls[9:]} (not a parse error, not a pydbml exception)', {'op': 'parse', 'text': t, 'props': p}, reason=reason)
        if cls == 'ok':
            for name, exc in r['render'][:2]:
                reason = None
                if name in ('project.dbml', 'group.dbml', 'db.dbml') and exc == 'internal:ValueError' and '\n' in ''.join(
                        [g['name'] for g in (r['dump'] or {'groups': []})['groups']] + ([r['dump']['project']['name']] if r.get('dump') and r['dump']['project'] else [])):
                    reason = 'NameWithNewline'
                if exc.startswith('internal'):
                    ctx.fail(f'{name} of a parsed database raises {exc[9:]}', {'op': 'render', 'text': t, 'props': p, 'what': name}, reason=reason)
                elif exc.startswith('lib:'):
                    # "whenever parsing returns a database, both renderings evaluate without raising": the
                    # library's own exceptions count as well
                    ctx.count('render:' + name + ':' + exc)
                    d = r.get('dump') or {'refs': []}
                    if exc == 'lib:DBMLError' and any(x.get('inline') and (len(x['col2']) > 1 or len(x['col1']) > 1) for x in d['refs']):
                        reason = 'RefColumnSplit'
                    ctx.fail(f'{name} of a parsed database raises {exc[4:]}', {'op': 'render', 'text': t, 'props': p, 'what': name}, reason=reason)
        if model is not None:
            m = model[k]
            if m.get('err') == 'outOfModel':
                ctx.count('model:outOfModel')
            else:
                mc = 'ok' if 'ok' in m else ('internal' if m['err'] == 'internal' else m['err'])
                ic = 'internal' if cls.startswith('internal') else cls
                if mc != ic:
                    ctx.diverge('parse outcome class', {'op': 'parse', 'text': t, 'props': p}, PC.brief(m), cls)
                elif cls == 'ok' and r.get('dump') is not None:
                    bad = dict(r['render'])
                    for what, mm in (('db.sql', msql.get(k)), ('db.dbml', mdbml.get(k))):
                        if mm is None or mm.get('err') == 'outOfModel':
                            continue
                        impl_cls = O.norm_class(bad[what]) if what in bad else 'ok'
                        mod_cls = 'ok' if 'ok' in mm else ('internal' if mm['err'] == 'internal' else mm['err'])
                        if impl_cls != mod_cls:
                            ctx.diverge(f'{what} outcome class of a parsed database', {'op': 'render', 'text': t, 'props': p}, mod_cls, impl_cls)
    if drv is not None:
        drv.close()

    def kf_replay(f):
        w = f['witness']
        r = run_text((w['text'], w.get('props', False)))
        return r['parse'].startswith('internal') or any(e.startswith('internal') or e.startswith('lib:') for _, e in r.get('render', []))

    return ctx.finish(
        rule='50 hand-picked edge documents (empty, comment-only, BOM, whitespace-only notes, dotted quoted types, braces, huge '
             'integers, escaped newlines in names, duplicate settings ...) under both option values; DBML rendered from wild '
             'API-built databases; random token/character mutants of corpus and spelled documents; token soups; special fragments '
             'spliced into valid documents; random Unicode strings. Every accepted database is rendered whole and element by '
             'element (sql and dbml). Distinct by (text, option) hash',
        explanation='Theorems (about the model, for ANY input text): parse_outcome - the outcome of PyDBML(text) is a database, a parse error, '
                    'SyntaxError (column-less table), one of the library exceptions, or ValueError from int() on a literal of more than 4300 digits '
                    '(numberValue_raises_only_long; known finding HugeInt) and nothing else; parseDoc_raises - proved through a program logic over every '
                    'grammar rule (Hoare.lean: Raises is closed under all combinators, no primitive raises); buildDatabase_error - every build error is a '
                    'library exception; parsed_sql_total - .sql of a parsed database evaluates (build_wellLinked: every stored position is in range; '
                    'sql_total: the SQL renderer is total on well-linked databases). .dbml is NOT total - dbml_raises_name_with_newline and '
                    'dbml_raises_inline_composite exhibit the two known findings in the model - and parsed_dbml_total_partial proves these are the '
                    'only ways: .dbml of a parsed database evaluates whenever no Project/TableGroup name holds a line break and every inline '
                    'reference has one referenced column. ' +
                    'Oracle: the class of any escaping exception must be a parse error, a pydbml exception or SyntaxError; every '
                    'rendering of an accepted database must not raise a non-pydbml exception. Correspondence: the Lean model makes '
                    'Python\'s partial operations explicit (min([]), tuple unpacking of split, int() limit, doublequote_string) and '
                    'must predict the same outcome class for parse, db.sql and db.dbml.',
        assumptions=['ParseResults access inside parse actions is typed data flow in the model (pyparsing semantics not modelled): '
                     'that part of the claim is carried by this sampled exploration'],
        trusted_base=['hand-written Lean model tied by this correspondence'],
        kf_replay=kf_replay, proof_problems=problems)


def replay(path):
    case = json.load(open(path))
    c = case.get('case', {})
    print(json.dumps({k: v for k, v in case.items() if k != 'case'}, indent=1)[:2000])
    if 'text' in c:
        print(repr(c['text'][:2000]))
        print('impl:', {k: v for k, v in run_text((c['text'], c.get('props', False))).items() if k != 'dump'})
    return 0
