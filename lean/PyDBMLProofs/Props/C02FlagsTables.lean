/-
C02/C05/C14/C15 — whole documents of tables whose columns carry settings, a note and properties, each table possibly
under a one-line comment, followed by references: the instances of `form_tables_roundtrip` (C02FormTables.lean) and
`form_refs_roundtrip` (C02FormRefs.lean) for `flagForm` (C02Flags.lean).
-/
import PyDBMLProofs.Props.C02Flags
import PyDBMLProofs.Props.C02FormTables
import PyDBMLProofs.Props.C02FormRefs
namespace PyDBML
namespace C02
open Lex Grammar Build

/-- the table of the content model that a described table stands for -/
def flagTable (t : FTab FCol) : Table :=
  { name := t.name, columns := t.cols.map FCol.col, comment := t.comment, note := t.note }

/-- what the theorems ask of a described table: a quoted name, at least one column, every column `FCol.ok`, the
    comment (if any) one line beginning with a visible character, and the note (if any) one plain normalised line
    without a triple quote -/
def FlagTabOK (ap : Bool) (t : FTab FCol) : Prop :=
  NameOK t.name ∧ (∀ s ∈ t.cols, s.ok ap) ∧ t.cols ≠ [] ∧ CmOK t.comment ∧ TNoteOK t.note

/-- **C02 (and the round-trip clauses of C14 and C15) for documents of tables with column settings, end to end**: a
    database holding any positive number of tables with pairwise different names (schema public), each possibly under a
    one-line comment, each with any positive number of columns carrying ANY SUBSET of `pk`, `increment`, `unique`,
    `not null`, possibly an integer, a one-line string or a backtick-expression default, a one-line note and - with the properties switch on - any number of arbitrary properties, is
    rendered to DBML and parsed back to exactly the same database: same tables, same comments on the same tables, same
    columns, settings, notes, properties, all in the same order.  (`hno`: no column declares an inline reference here -
    there is nothing yet for one to point at as a theorem of tables alone; `flags_document_roundtrip_partial` covers them.) -/
theorem flags_tables_roundtrip_partial (ap : Bool) (ts : List (FTab FCol))
    (hok : ∀ t ∈ ts, FlagTabOK ap t) (hne : ts ≠ []) (hd : ts.Pairwise (fun a b => a.name ≠ b.name))
    (hno : ∀ t ∈ ts, ∀ s ∈ t.cols, s.irefs = []) :
    ∃ text, Dbml.renderDb { tables := ts.map flagTable, allowProps := ap } = .ok text
      ∧ Build.parse ap text = .ok { tables := ts.map flagTable, allowProps := ap } :=
  form_tables_roundtrip flagForm ap ts hok hne hd hno

/-- the rendered text of two such tables (a test of the statement on one literal) -/
example : flagForm.docText [{ name := lit "a", cols := [{ name := lit "id", type := lit "int", pk := true }], comment := some (lit "the a's") },
      { name := lit "b", cols := [{ name := lit "n", type := lit "text", note := lit "x" }, { name := lit "m", type := lit "int" }] }]
    = lit "// the a's\nTable \"a\" {\n    \"id\" int [pk]\n}\n\nTable \"b\" {\n    \"n\" text [note: 'x']\n    \"m\" int\n}" := by decide

/-- **C02 / C05 / C14 / C15: tables with column settings AND references between their columns, end to end.**  A database
    holding any positive number of tables with pairwise different names, each possibly under a one-line comment, each
    with any positive number of columns carrying any subset of `pk`, `increment`, `unique`, `not null`, possibly an integer, a one-line string or a backtick-expression default, a
    one-line note and (switch on) any number of properties, and any positive number of pairwise different standalone
    single-column references between columns of these tables, is rendered to DBML and parsed back to exactly the same
    database: the comment above a table is stored on that table, the references are resolved - by table name and
    column name - to the very positions they were written from.  The hypotheses on names are exactly the recorded
    findings: no dot in a table name, a column name is one comma-free piece that survives `strip('() ')`, no two columns
    of one table with one name; `hno`: the references here are all standalone (inline ones: `flags_document_roundtrip_partial`). -/
theorem flags_refs_roundtrip_partial (ap : Bool) (ts : List (FTab FCol)) (rs : List RSpec)
    (hok : ∀ t ∈ ts, FlagTabOK ap t) (hts : ts ≠ [])
    (htn : ts.Pairwise (fun a b => a.name ≠ b.name)) (hnodot : ∀ t ∈ ts, '.' ∉ t.name)
    (hcn : ∀ t ∈ ts, t.cols.Pairwise (fun a b => a.name ≠ b.name))
    (hcp : ∀ t ∈ ts, ∀ c ∈ t.cols, splitComma c.name = [c.name] ∧ stripParenSpace c.name = c.name)
    (hin : ∀ r ∈ rs, ∃ ta tb, ts[r.t1]? = some ta ∧ ts[r.t2]? = some tb ∧ r.c1 < ta.cols.length ∧ r.c2 < tb.cols.length)
    (hrs : rs ≠ []) (hnd : rs.Nodup) (hno : ∀ t ∈ ts, ∀ s ∈ t.cols, s.irefs = []) :
    ∃ text, Dbml.renderDb { tables := ts.map flagTable, refs := rs.map mkRef, allowProps := ap } = .ok text
      ∧ Build.parse ap text = .ok { tables := ts.map flagTable, refs := rs.map mkRef, allowProps := ap } :=
  form_refs_roundtrip flagForm ap ts rs hok (fun t ht s hs => ((hok t ht).2.1 s hs).name) hts
    ⟨htn, hnodot, hcn, hcp⟩ hin hrs hnd hno

/-- the rendered text of two such tables and a reference (a test of the statement on one literal) -/
example : flagForm.docTextR [{ name := lit "a", cols := [{ name := lit "id", type := lit "int", pk := true }] },
      { name := lit "b", cols := [{ name := lit "a id", type := lit "int", notNull := true }], comment := some (lit "child") }]
      [flagForm.rtext [{ name := lit "a", cols := [{ name := lit "id", type := lit "int", pk := true }] },
        { name := lit "b", cols := [{ name := lit "a id", type := lit "int", notNull := true }], comment := some (lit "child") }]
        { kind := .manyToOne, t1 := 1, c1 := 0, t2 := 0, c2 := 0 }]
    = lit "Table \"a\" {\n    \"id\" int [pk]\n}\n\n// child\nTable \"b\" {\n    \"a id\" int [not null]\n}\n\nRef {\n    \"b\".\"a id\" > \"a\".\"id\"\n}" := by
  decide

/-- non-vacuity of the comment hypothesis -/
example : CmOK (some (lit "the a's // really")) := ⟨⟨_, _, rfl, by decide⟩, by intro c hc; revert c; decide⟩

end C02
end PyDBML
