/-
C04 — "every relationship becomes exactly one correctly directed FOREIGN KEY", as an inversion: the READER of
`ALTER TABLE … ADD … FOREIGN KEY …` statements (`PyDBMLModel/SqlRead.lean`, text only) recovers from the statement the
renderer model writes for a standalone reference the table that gets the key - the key holder: the left-hand table for
`>` and `-`, the right-hand one for `<` -, its columns in order, the referenced table and columns in order, the
constraint name exactly when the reference is named, and the action clauses (`read_render_fk`).
-/
import PyDBMLModel
import PyDBMLProofs.Props.C04
import PyDBMLProofs.Props.C03Read
namespace PyDBML
namespace C04
open Sql C03

/-- a name between double quotes -/
def quoteN (n : Str) : Str := '"' :: n ++ ['"']

theorem readQuoted_ok (n rest : Str) (hq : '"' ∉ n) : readQuoted ('"' :: (n ++ '"' :: rest)) = some (n, rest) := by
  have hn : ∀ ch ∈ n, (ch != '"') = true := by
    intro ch hch
    simp only [bne_iff_ne, ne_eq]
    intro e; subst e; exact hq hch
  obtain ⟨hd, ht⟩ := dropWhile_until (· != '"') n '"' rest hn (by decide)
  simp only [readQuoted, hd, ht]

/-- a qualified name followed by a blank -/
theorem readQual_ok (sch n X : Str) (hs : '"' ∉ sch) (hn : '"' ∉ n) :
    readQual (qualName sch n ++ ' ' :: X) = some (qualName sch n, ' ' :: X) := by
  unfold qualName
  split
  · have e : ('"' :: n ++ ['"']) ++ ' ' :: X = '"' :: (n ++ '"' :: (' ' :: X)) := by simp
    rw [e]
    unfold readQual
    rw [readQuoted_ok n _ hn]
    simp
  · have e : ('"' :: sch ++ lit "\".\"" ++ n ++ ['"']) ++ ' ' :: X = '"' :: (sch ++ '"' :: ('.' :: '"' :: (n ++ '"' :: (' ' :: X)))) := by
      simp [lit]
    rw [e]
    unfold readQual
    rw [readQuoted_ok sch _ hs]
    simp only []
    rw [readQuoted_ok n _ hn]
    simp [lit]

theorem readNamesR_ok (rest : Str) : ∀ (ns : List Str) (fuel : Nat), ns ≠ [] → ns.length ≤ fuel → (∀ n ∈ ns, '"' ∉ n) →
    readNamesR fuel (joinWith (lit ", ") (ns.map quoteN) ++ ')' :: rest) = some (ns, rest) := by
  intro ns
  induction ns with
  | nil => intro _ h; exact absurd rfl h
  | cons n r ih =>
    intro fuel _ hf hq
    obtain ⟨f, rfl⟩ : ∃ f, fuel = f + 1 := ⟨fuel - 1, by simp at hf; omega⟩
    cases r with
    | nil =>
      have e : joinWith (lit ", ") ([n].map quoteN) ++ ')' :: rest = '"' :: (n ++ '"' :: (')' :: rest)) := by
        simp [joinWith, quoteN]
      rw [e]
      simp only [readNamesR, readQuoted_ok n _ (hq n (by simp))]
    | cons n2 r2 =>
      have e : joinWith (lit ", ") ((n :: n2 :: r2).map quoteN) ++ ')' :: rest
          = '"' :: (n ++ '"' :: (',' :: ' ' :: (joinWith (lit ", ") ((n2 :: r2).map quoteN) ++ ')' :: rest))) := by
        simp [joinWith, lit, quoteN]
      rw [e]
      simp only [readNamesR, readQuoted_ok n _ (hq n (by simp))]
      rw [ih f (by simp) (by simp at hf ⊢; omega) (fun m hm => hq m (by simp [hm]))]
      rfl

theorem joinNames_length (l : List Str) : l.length ≤ (joinWith (lit ", ") (l.map quoteN)).length := by
  induction l with
  | nil => simp
  | cons a r ih =>
    cases r with
    | nil => simp [joinWith, quoteN]
    | cons b r2 =>
      have : joinWith (lit ", ") ((a :: b :: r2).map quoteN)
          = quoteN a ++ lit ", " ++ joinWith (lit ", ") ((b :: r2).map quoteN) := rfl
      rw [this]
      simp only [List.length_append, List.length_cons, quoteN] at ih ⊢
      omega

/-- the names of the columns at the given positions -/
def namesAt (t : Table) (cols : List Nat) : List Str := cols.map fun i => ((t.columns[i]?).map (·.name)).getD []

theorem colNames_ok (t : Table) (cols : List Nat) (h : ∀ i ∈ cols, i < t.columns.length) :
    colNames t cols = .ok (joinWith (lit ", ") ((namesAt t cols).map quoteN)) := by
  have hm : (cols.mapM fun i => do
      let c ← getD? t.columns i "reference column position"
      pure ('"' :: c.name ++ ['"']))
      = .ok (cols.map fun i => '"' :: ((t.columns[i]?).map (·.name)).getD [] ++ ['"']) := by
    apply mapM_ok_map_mem'
    intro i hi
    have hl := h i hi
    simp [getD?, List.getElem?_eq_getElem hl, bind, Except.bind, pure, Except.pure]
  simp only [bind, Except.bind, pure, Except.pure] at hm
  unfold colNames namesAt
  simp only [hm, bind, Except.bind, pure, Except.pure, List.map_map, Function.comp_def]
  rfl

/-- the constraint name as the statement shows it -/
def constraintOf (r : Ref) : Option Str := if truthy r.name then r.name else none

theorem readConstraint_ok (r : Ref) (X : Str) (hq : ∀ n, r.name = some n → '"' ∉ n) :
    readConstraint (constraintText r ++ (lit "FOREIGN KEY (" ++ X)) = (constraintOf r, lit "FOREIGN KEY (" ++ X) := by
  unfold constraintText constraintOf
  cases hn : r.name with
  | none =>
    simp [truthy, readConstraint, stripKw, lit, List.isPrefixOf]
  | some n =>
    cases n with
    | nil => simp [truthy, readConstraint, stripKw, lit, List.isPrefixOf]
    | cons a b =>
      have hqq := hq (a :: b) hn
      have e : lit "CONSTRAINT \"" ++ (some (a :: b)).getD [] ++ lit "\" " ++ (lit "FOREIGN KEY (" ++ X)
          = lit "CONSTRAINT " ++ ('"' :: ((a :: b) ++ '"' :: (' ' :: (lit "FOREIGN KEY (" ++ X)))) := by
        simp [lit]
      simp only [truthy, ↓reduceIte]
      rw [e]
      unfold readConstraint
      rw [stripKw_append]
      simp only []
      rw [readQuoted_ok (a :: b) _ hqq]
      simp

/-- the statement the model writes for a standalone reference that is not many-to-many -/
def fkLine (r : Ref) (st rt : Table) : Str :=
  lit "ALTER TABLE " ++ qualName st.schema st.name ++ lit " ADD " ++ constraintText r ++ lit "FOREIGN KEY ("
    ++ joinWith (lit ", ") ((namesAt st (refSides r).1.2).map quoteN) ++ [')'] ++ lit " REFERENCES "
    ++ qualName rt.schema rt.name ++ lit " (" ++ joinWith (lit ", ") ((namesAt rt (refSides r).2.2).map quoteN)
    ++ [')'] ++ onClauses r ++ [';']

theorem renderRefTop_line (db : Db) (r : Ref) (hk : r.kind ≠ .manyToMany) (hi : r.inline = false) (st rt : Table)
    (hst : db.tables[(refSides r).1.1]? = some st) (hrt : db.tables[(refSides r).2.1]? = some rt)
    (hsc : ∀ i ∈ (refSides r).1.2, i < st.columns.length) (hrc : ∀ i ∈ (refSides r).2.2, i < rt.columns.length)
    (hcm : r.comment = none) : renderRefTop db r = .ok (fkLine r st rt) := by
  unfold renderRefTop
  simp only [hk, hi, ↓reduceIte, Bool.false_eq_true]
  unfold renderNotInlineRef
  have g1 : getD? db.tables (refSides r).1.1 "ref table position" = .ok st := by simp [getD?, hst]
  have g2 : getD? db.tables (refSides r).2.1 "ref table position" = .ok rt := by simp [getD?, hrt]
  rcases hrs : refSides r with ⟨⟨a, b⟩, ⟨c, d⟩⟩
  simp only [hrs] at g1 g2 hsc hrc
  simp only [g1, g2, colNames_ok st b hsc, colNames_ok rt d hrc, bind, Except.bind, pure, Except.pure]
  unfold fkLine notInlineParts
  simp [hrs, Sql.optComment, hcm, lit]

/-- what the model says a standalone reference becomes -/
def fkDescOf (r : Ref) (st rt : Table) : FkDesc :=
  { src := qualName st.schema st.name, constraint := constraintOf r, srcCols := namesAt st (refSides r).1.2,
    dst := qualName rt.schema rt.name, dstCols := namesAt rt (refSides r).2.2, actions := onClauses r }

theorem readFk_fkLine (r : Ref) (st rt : Table) (hne1 : (refSides r).1.2 ≠ []) (hne2 : (refSides r).2.2 ≠ [])
    (hqt : '"' ∉ st.schema ∧ '"' ∉ st.name ∧ '"' ∉ rt.schema ∧ '"' ∉ rt.name)
    (hqc : (∀ n ∈ namesAt st (refSides r).1.2, '"' ∉ n) ∧ (∀ n ∈ namesAt rt (refSides r).2.2, '"' ∉ n))
    (hqn : ∀ n, r.name = some n → '"' ∉ n) :
    readFk (fkLine r st rt) = some (fkDescOf r st rt) := by
  unfold readFk fkLine
  simp only [List.append_assoc, List.cons_append, List.nil_append]
  rw [stripKw_append]
  simp only []
  rw [show lit " ADD " ++ _ = ' ' :: (lit "ADD " ++ _) from rfl, readQual_ok _ _ _ hqt.1 hqt.2.1]
  simp only []
  rw [show (' ' :: (lit "ADD " ++ _) : Str) = lit " ADD " ++ _ from rfl, stripKw_append]
  simp only []
  rw [readConstraint_ok r _ hqn]
  simp only []
  rw [stripKw_append]
  simp only []
  rw [readNamesR_ok _ _ _ (by simpa [namesAt] using hne1) (by
    have := joinNames_length (namesAt st (refSides r).1.2)
    simp only [List.length_append]
    omega) hqc.1]
  simp only []
  rw [stripKw_append]
  simp only []
  rw [show lit " (" ++ _ = ' ' :: (lit "(" ++ _) from rfl, readQual_ok _ _ _ hqt.2.2.1 hqt.2.2.2]
  simp only []
  rw [show (' ' :: (lit "(" ++ _) : Str) = lit " (" ++ _ from rfl, stripKw_append]
  simp only []
  rw [readNamesR_ok _ _ _ (by simpa [namesAt] using hne2) (by
    have := joinNames_length (namesAt rt (refSides r).2.2)
    simp only [List.length_append]
    omega) hqc.2]
  simp [fkDescOf]

/-- **the reader inverts the renderer of standalone references.**  For a reference that is not many-to-many and not
    inline, between existing columns of existing tables (no double quote in a name, no comment), the statement the model
    writes is read back to: the table altered = the table at the SOURCE side of `refSides` (for `>` and `-` the
    left-hand table, for `<` the right-hand one: `source_is_keyHolder`), its columns by name in the order of the
    reference, the referenced table and its columns in order, `CONSTRAINT` exactly when the reference has a non-empty
    name, and the action clauses of `onClauses` - one statement, nothing else. -/
theorem read_render_fk (db : Db) (r : Ref) (hk : r.kind ≠ .manyToMany) (hi : r.inline = false) (st rt : Table)
    (hst : db.tables[(refSides r).1.1]? = some st) (hrt : db.tables[(refSides r).2.1]? = some rt)
    (hsc : ∀ i ∈ (refSides r).1.2, i < st.columns.length) (hrc : ∀ i ∈ (refSides r).2.2, i < rt.columns.length)
    (hcm : r.comment = none) (hne1 : (refSides r).1.2 ≠ []) (hne2 : (refSides r).2.2 ≠ [])
    (hqt : '"' ∉ st.schema ∧ '"' ∉ st.name ∧ '"' ∉ rt.schema ∧ '"' ∉ rt.name)
    (hqc : (∀ n ∈ namesAt st (refSides r).1.2, '"' ∉ n) ∧ (∀ n ∈ namesAt rt (refSides r).2.2, '"' ∉ n))
    (hqn : ∀ n, r.name = some n → '"' ∉ n) :
    ∃ line, renderRefTop db r = .ok line ∧ readFk line = some (fkDescOf r st rt) :=
  ⟨_, renderRefTop_line db r hk hi st rt hst hrt hsc hrc hcm, readFk_fkLine r st rt hne1 hne2 hqt hqc hqn⟩

/-- direction, stated on what is read: for `>` the altered table is the left-hand one and the referenced table the
    right-hand one, for `<` the other way round (a test of the statement on literals) -/
example :
    readFk (lit "ALTER TABLE \"s\".\"orders\" ADD CONSTRAINT \"fk 1\" FOREIGN KEY (\"user id\", \"k\") REFERENCES \"users\" (\"id\", \"k\") ON DELETE CASCADE;")
      = some ⟨lit "\"s\".\"orders\"", some (lit "fk 1"), [lit "user id", lit "k"], lit "\"users\"", [lit "id", lit "k"], lit " ON DELETE CASCADE"⟩
    ∧ readFk (lit "ALTER TABLE \"a\" ADD FOREIGN KEY (\"x\") REFERENCES \"b\" (\"y\");")
      = some ⟨lit "\"a\"", none, [lit "x"], lit "\"b\"", [lit "y"], []⟩ := by decide +kernel

end C04
end PyDBML
