/- JSON codec for the table-level container state machine (driver side only). -/
import Lean.Data.Json
import PyDBMLModel.TableCont
import PyDBMLModel.Codec
open Lean
namespace PyDBML
namespace TCont
open Codec

def decOwner (n : Nat) : Owner := match n with | 1 => .this | 2 => .other | _ => .none
def encOwner : Owner → Nat | .none => 0 | .this => 1 | .other => 2

def decSubj (j : Json) : D Subj :=
  match j with
  | .arr #[_, c] => do pure (.expr (← c.getNat?))
  | v => do pure (.col (← v.getNat?))

def decUniverse (j : Json) : D St := do
  let C ← (← arrF j "C").mapM fun c => do
    match c with
    | .arr #[k, o] => pure ({ cls := ← k.getNat?, owner := decOwner (← o.getNat?) } : CObj)
    | _ => throw "column object"
  pure { C := C }

def decOp (j : Json) : D Op := do
  match j with
  | .arr a =>
    let tag ← (a[0]?.getD Json.null).getStr?
    let n1 : D Nat := (a[1]?.getD Json.null).getNat?
    match tag with
    | "add_column" => pure (.addColumn (← n1))
    | "delete_column_pos" => pure (.deleteColumnPos (← n1))
    | "delete_column_obj" => pure (.deleteColumnObj (← n1))
    | "new_index" =>
      let subs ← match a[1]?.getD Json.null with
        | .arr xs => xs.toList.mapM decSubj
        | _ => throw "subjects"
      pure (.newIndex subs (← (a[2]?.getD Json.null).getNat?))
    | "delete_index_pos" => pure (.deleteIndexPos (← n1))
    | "delete_index_obj" => pure (.deleteIndexObj (← n1))
    | _ => throw s!"op {tag}"
  | _ => throw "op array expected"

def encOutcome : Outcome → Json
  | .ok => "ok" | .notFound => "not-found" | .badOp => "bad-op"

def encState (s : St) : Json :=
  Json.mkObj [
    ("cols", jnats s.cols), ("idxs", jnats s.idxs),
    ("owner", jnats (s.C.map fun c => encOwner c.owner)),
    ("attached", .arr (s.I.map fun i => Json.bool i.attached).toArray)]

def runHist (j : Json) : D Json := do
  let s0 ← decUniverse (← fld j "universe")
  let ops ← (← arrF j "ops").mapM decOp
  let (_, out) := ops.foldl (fun (acc : St × List Json) op =>
      let (s', o) := step acc.1 op
      (s', acc.2 ++ [Json.mkObj [("outcome", encOutcome o), ("state", encState s')]])) (s0, [])
  pure (Json.mkObj [("steps", .arr out.toArray)])

end TCont
end PyDBML
