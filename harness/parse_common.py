"""Shared pieces of the parser-side checks: running the real parser, comparing with the model."""
import sys

sys.path.insert(0, '/repo')

from pydbml import PyDBML  # noqa: E402
from harness import observe as O  # noqa: E402


def impl_parse(text, props=False):
    """-> {'ok': dump} | {'err': class}"""
    try:
        db = PyDBML(text, allow_properties=props)
    except RecursionError:
        return {'err': 'recursion'}
    except Exception as e:  # noqa: BLE001
        return {'err': O.classify(e)}
    try:
        return {'ok': O.dump_db(db)}
    except O.OutOfModel as e:
        return {'err': 'outOfModel:' + str(e)}
    except O.NotADatabase as e:
        return {'err': 'internal:NotADatabase(' + str(e) + ')'}


def impl_parse_job(job):
    return impl_parse(job[0], job[1])


def same_parse(m, i):
    """model reply vs implementation outcome"""
    if 'ok' in i:
        return m.get('ok') == i['ok']
    e = i['err']
    if e in ('syntax', 'noColumns'):
        return m.get('err') == e
    if e.startswith('lib:'):
        return m.get('err') == e
    if e.startswith('internal'):
        return m.get('err') == 'internal'
    return False


def brief(x):
    if 'ok' in x:
        return 'ok'
    return x.get('err', '?') + (':' + x['exc'] if 'exc' in x else '')


def first_diff(a, b, path=''):
    """first differing path between two JSON values"""
    if type(a) != type(b):
        return path, a, b
    if isinstance(a, dict):
        for k in a:
            if k not in b:
                return path + '/' + k, a[k], '<missing>'
            d = first_diff(a[k], b[k], path + '/' + k)
            if d:
                return d
        for k in b:
            if k not in a:
                return path + '/' + k, '<missing>', b[k]
        return None
    if isinstance(a, list):
        for i, (x, y) in enumerate(zip(a, b)):
            d = first_diff(x, y, f'{path}[{i}]')
            if d:
                return d
        if len(a) != len(b):
            return path + '.length', len(a), len(b)
        return None
    return None if a == b else (path, a, b)
