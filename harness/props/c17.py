"""C17 — inconsistent models are refused at render time, not rendered as bogus output."""
import itertools
import json
import sys

from harness import core
from harness.driver import Driver, DriverError
from harness import observe as O

sys.path.insert(0, '/repo')
from pydbml.classes import Column, Enum, EnumItem, Expression, Index, Reference, Table  # noqa: E402
from pydbml.database import Database  # noqa: E402

PID = 'C17'
THEOREMS = ['PyDBML.C17.required_unset_refused', 'PyDBML.C17.complete_renders',
            'PyDBML.C17.detached_endpoint_sql', 'PyDBML.C17.detached_endpoint_dbml',
            'PyDBML.C17.mixed_side_tables', 'PyDBML.C17.mixed_side_dbml', 'PyDBML.C17.composite_inline_dbml',
            'PyDBML.C17.detached_get_refs']
MODULES = ['PyDBMLProofs.Props.C17']

REQUIRED = {'table': ['name', 'schema'], 'column': ['name', 'type'], 'index': ['subjects', 'table'],
            'enum': ['name', 'schema', 'items'], 'enum_item': ['name'], 'reference': ['type', 'col1', 'col2']}


# attributes the constructor takes: in the 'ctor' flavour they are left as the constructor stored them
CTOR_ATTRS = {'table': ('name', 'schema'), 'column': ('name', 'type'), 'enum': ('name', 'schema'), 'enum_item': ('name',),
              'reference': ('type',)}


def make_element(kind, unset, attached, how):
    """Build an element of `kind` with the attributes in `unset` being None, reached through the
    constructor where it allows it (`how`='ctor') or by editing afterwards ('edit').
    Returns (element, parent table or None, db or None)."""
    db = Database() if attached else None
    t = Table('t1')
    c = Column('c1', 'int')
    t.add_column(c)
    other = Table('t2')
    oc = Column('c2', 'int')
    other.add_column(oc)
    if db:
        db.add(t)
        db.add(other)
    ctor = how == 'ctor'
    if kind == 'table':
        el = Table(None if ctor and 'name' in unset else 'tx', schema=None if ctor and 'schema' in unset else 'public')
        el.add_column(Column('c', 'int'))
        if db:
            db.add(el)
        for a in unset:
            if not (ctor and a in CTOR_ATTRS.get(kind, ())):
                # what the constructor was given stays what the constructor made of it
                setattr(el, a, None)
        return el, None, db
    if kind == 'column':
        el = Column(None if ctor and 'name' in unset else 'cx', None if ctor and 'type' in unset else 'int')
        t.add_column(el)
        for a in unset:
            if not (ctor and a in CTOR_ATTRS.get(kind, ())):
                # what the constructor was given stays what the constructor made of it
                setattr(el, a, None)
        return el, t, db
    if kind == 'index':
        el = Index([c], name='ix')
        if 'table' not in unset:
            t.add_index(el)
        for a in unset:
            if not (ctor and a in CTOR_ATTRS.get(kind, ())):
                # what the constructor was given stays what the constructor made of it
                setattr(el, a, None)
        return el, (t if 'table' not in unset else None), db
    if kind == 'enum':
        el = Enum(None if ctor and 'name' in unset else 'e', ['a', 'b'], schema=None if ctor and 'schema' in unset else 'public')
        if db:
            db.add(el)
        for a in unset:
            if not (ctor and a in CTOR_ATTRS.get(kind, ())):
                # what the constructor was given stays what the constructor made of it
                setattr(el, a, None)
        return el, None, db
    if kind == 'enum_item':
        el = EnumItem(None if ctor and 'name' in unset else 'it')
        holder = Enum('eh', [EnumItem('first'), el])
        if db:
            db.add(holder)
        for a in unset:
            if not (ctor and a in CTOR_ATTRS.get(kind, ())):
                # what the constructor was given stays what the constructor made of it
                setattr(el, a, None)
        return el, holder, db
    if kind == 'reference':
        el = Reference(None if ctor and 'type' in unset else '>', c, oc)
        if db:
            db.add(el)
        for a in unset:
            if not (ctor and a in CTOR_ATTRS.get(kind, ())):
                # what the constructor was given stays what the constructor made of it
                setattr(el, a, None)
        return el, None, db
    raise ValueError(kind)


# optional attributes never decide whether a required one is missing: each case is run in every flavour
FLAVOURS = {
    'table': [{}, {'alias': 'al'}, {'note': 'n', 'header_color': '#fff'}],
    'column': [{}, {'pk': True}, {'unique': True, 'not_null': True, 'default': 0}, {'autoinc': True, 'comment': 'c'}],
    'index': [{}, {'pk': True}, {'unique': True, 'type': 'hash'}, {'pk': True, 'name': None}, {'comment': 'c'}],
    'enum': [{}, {'comment': 'c'}],
    'enum_item': [{}, {'comment': 'c'}],
    'reference': [{}, {'name': 'fk'}, {'on_update': 'cascade', 'on_delete': 'set null'}, {'comment': 'c'}],
}


def elem_job(job):
    kind, unset, attached, how = job[:4]
    flavour = job[4] if len(job) > 4 else {}
    try:
        el, parent, db = make_element(kind, unset, attached, how)
        for a, v in flavour.items():
            if a not in unset:
                setattr(el, a, v)
    except Exception as e:  # noqa: BLE001
        return {'skip': 'build:' + type(e).__name__}
    r = {'self': O.run(lambda: el.sql)}
    if parent is not None:
        r['parent'] = O.run(lambda: parent.sql)
    if db is not None and kind in ('table', 'column', 'index', 'enum', 'enum_item', 'reference'):
        r['db'] = O.run(lambda: db.sql)
    return {k: (v[0] if v[0] == 'ok' else v[1]) for k, v in r.items()}


def make_ref(a, b, typ, inline):
    tabs = {}

    def col(x, i):
        if x is None:
            return Column(f'd{i}', 'int')
        if x not in tabs:
            # 2 is a look-alike of table 0: ANOTHER table with the same schema and name (and other columns)
            tabs[x] = Table(f'tab{x}') if x != 2 else Table('tab0', note='the other tab0')
            if x == 2:
                tabs[x].add_column(Column('only_here', 'text'))
        c = Column(f'c{len(tabs[x].columns)}', 'int')
        tabs[x].add_column(c)
        return c
    c1 = [col(x, i) for i, x in enumerate(a)]
    c2 = [col(x, 10 + i) for i, x in enumerate(b)]
    return Reference(typ, c1, c2, inline=inline)


def ref_job(job):
    a, b, typ, inline = job
    r = make_ref(a, b, typ, inline)
    out = {'sql': O.run(lambda: r.sql), 'dbml': O.run(lambda: r.dbml), 'table1': O.run(lambda: r.table1),
           'table2': O.run(lambda: r.table2)}
    return {k: ('ok' if v[0] == 'ok' else O.norm_class(v[1])) for k, v in out.items()}


def main(tier, seed):
    ctx = core.Ctx(PID, tier, seed, 'proof', THEOREMS, MODULES)
    ctx.build()
    problems = ctx.audit() if ctx.build_ok else ['lake build failed']
    drv = None
    try:
        drv = Driver()
    except DriverError as e:
        ctx.notes.append(str(e))

    # ---- part 1: required attributes
    jobs = []
    for kind, req in REQUIRED.items():
        subsets = [()] + [(x,) for x in req] + list(itertools.combinations(req, 2)) + ([tuple(req)] if len(req) > 2 else [])
        for unset in dict.fromkeys(subsets):
            for attached in (False, True):
                for how in ('ctor', 'edit'):
                    for fl in FLAVOURS[kind]:
                        jobs.append((kind, list(unset), attached, how, fl))
    res = [elem_job(j) for j in jobs]
    model = None
    if drv is not None:
        # a database with the default renderers: `attached` only matters for the detached-table rule
        model = drv.ask_many({'op': 'dispatch', 'what': 'render', 'kind': k, 'default_cfg': True, 'handled': [], 'unset': u,
                              'attached': att, 'sql': True} for k, u, att, _, _ in jobs)
    for i, (job, r) in enumerate(zip(jobs, res)):
        kind, unset, attached, how, flavour = job
        if 'skip' in r:
            ctx.count('skip:' + r['skip'])
            continue
        ctx.case(core.h(['elem', job]), bool(unset), sample={'kind': kind, 'unset': unset, 'attached': attached, 'how': how, 'flavour': flavour, 'observed': r} if i % 53 == 0 else None)
        ctx.count(f'elem:{kind}:{len(unset)}-unset')
        want = 'lib:AttributeMissingError' if unset else 'ok'
        for via, got in r.items():
            if via != 'self' and kind != 'enum_item' and (not attached or kind in ('index', 'reference') and via == 'db'):
                continue    # a detached table cannot render SQL at all (UnknownDatabaseError comes first)
            if want == 'ok' and not attached and kind == 'table':
                continue
            if want == 'ok' and got != 'ok':
                ctx.fail(f'{kind}.sql ({via}) raises although every required attribute is set', {'op': 'elem', 'job': job}, got=got)
            if want != 'ok' and got != want:
                ctx.fail(f'{kind} lacking {unset}: .sql ({via}) does not raise the attribute-missing error', {'op': 'elem', 'job': job}, got=got)
        if model is not None:
            m = model[i].get('ok')
            m = 'ok' if m == 'default' else m
            if m != r['self']:
                ctx.diverge('element .sql outcome', {'op': 'elem', 'job': job}, m, r['self'])

    # ---- part 2: references with detached / mixed endpoints
    side_vals = [None, 0, 1, 2]
    sides = [list(s) for n in (1, 2) for s in itertools.product(side_vals, repeat=n)]
    if ctx.thorough:
        sides += [list(s) for s in itertools.product([None, 0, 1], repeat=3)]
    rjobs = [(a, b, typ, inline) for a in sides for b in sides for typ in ('>', '<', '-', '<>') for inline in (False, True)]
    rres = core.pmap(ref_job, rjobs)
    rmodel = None
    if drv is not None:
        rmodel = drv.ask_many({'op': 'dispatch', 'what': 'ref', 'a': a, 'b': b, 'm2m': typ == '<>',
                               'inline': inline and typ != '<>'} for a, b, typ, inline in rjobs)
    for i, (job, r) in enumerate(zip(rjobs, rres)):
        a, b, typ, inline = job
        detached = any(x is None for x in a + b)
        mixed = len(set(a)) > 1 or len(set(b)) > 1
        ctx.case(core.h(['ref', job]), detached or mixed or (inline and len(b) > 1),
                 sample={'col1_tables': a, 'col2_tables': b, 'type': typ, 'inline': inline, 'observed': r} if i % 301 == 0 else None)
        ctx.count('ref:' + ('detached' if detached else 'mixed' if mixed else 'consistent'))
        eff_inline = inline and typ != '<>'
        # the statement, directly
        if detached:
            for k in ('sql', 'dbml'):
                if r[k] != 'lib:TableNotFoundError':
                    ctx.fail(f'reference with a detached column: .{k} does not raise the table-not-found error', {'op': 'ref', 'job': job}, got=r[k])
        elif mixed:
            first_mixed_or_any = True
            for k in ('table1', 'table2') + (() if eff_inline else ('dbml',)):
                if r[k] != 'lib:DBMLError' and first_mixed_or_any:
                    ctx.fail(f'reference mixing tables on one side: .{k} does not raise the DBML error', {'op': 'ref', 'job': job}, got=r[k])
        if not detached and eff_inline and len(b) > 1 and r['dbml'] != 'lib:DBMLError':
            ctx.fail('composite reference rendered inline in DBML', {'op': 'ref', 'job': job}, got=r['dbml'])
        if not detached and not mixed and not (eff_inline and len(b) > 1):
            for k in ('sql', 'dbml', 'table1', 'table2'):
                if r[k] != 'ok':
                    ctx.fail(f'consistent reference: .{k} raises', {'op': 'ref', 'job': job}, got=r[k])
        if rmodel is not None:
            m = rmodel[i]
            obs = {'sql': r['sql'], 'dbml': r['dbml'], 'table1': r['table1']}
            mod = {k: m.get(k) for k in obs}
            if mod != obs:
                ctx.diverge('reference rendering / table1 outcome', {'op': 'ref', 'job': job}, mod, obs)

    # ---- part 2a': two inconsistencies at once - a detached endpoint that also lacks a required attribute: still the
    # table-not-found error (never an exception of the implementation's own making while it words the message)
    for typ in ('>', '<', '-', '<>'):
        for inline in (False, True):
            for missing in ('type', 'name', 'both'):
                for side in (1, 2):
                    t_ = Table('tab')
                    own = Column('c0', 'int')
                    t_.add_column(own)
                    det = Column('d0', 'int')
                    if missing in ('type', 'both'):
                        det.type = None
                    if missing in ('name', 'both'):
                        det.name = None
                    r_ = Reference(typ, [det] if side == 1 else [own], [own] if side == 1 else [det], inline=inline)
                    outs = {k: O.run(f) for k, f in (('sql', lambda: r_.sql), ('dbml', lambda: r_.dbml))}
                    got = {k: ('ok' if v[0] == 'ok' else O.norm_class(v[1])) for k, v in outs.items()}
                    ctx.case(core.h(['hollow detached', typ, inline, missing, side]), True,
                             sample={'kind': typ, 'inline': inline, 'detached_column_lacks': missing, 'observed': got} if typ == '>' and side == 1 else None)
                    for k, g in got.items():
                        if g != 'lib:TableNotFoundError':
                            ctx.fail(f'reference with a detached column that also lacks its {missing}: .{k} gives {g} instead of the '
                                     f'table-not-found error', {'op': 'hollow-detached', 'case': [typ, inline, missing, side]}, got=g)
    # ---- part 2b: the same questions asked again after the model changed (nothing may be remembered from the first answer)
    for typ in ('>', '<', '-', '<>'):
        for n in (1, 2):
            for move in ('rehome', 'detach'):
                ta, tb, tc = Table('ta'), Table('tb'), Table('tc')
                ca = [Column(f'a{i}', 'int') for i in range(n)]
                cb = [Column(f'b{i}', 'int') for i in range(n)]
                for c in ca:
                    ta.add_column(c)
                for c in cb:
                    tb.add_column(c)
                tc.add_column(Column('z', 'int'))
                dbx = Database()
                for t in (ta, tb, tc):
                    dbx.add(t)
                r = Reference(typ, ca, cb)
                dbx.add(r)
                first = {k: O.run(f) for k, f in (('table1', lambda: r.table1), ('dbml', lambda: r.dbml), ('sql', lambda: r.sql), ('db.sql', lambda: dbx.sql))}
                ta.delete_column(ca[-1])
                if move == 'rehome':
                    tc.add_column(ca[-1])
                second = {k: O.run(f) for k, f in (('table1', lambda: r.table1), ('dbml', lambda: r.dbml), ('sql', lambda: r.sql))}
                ctx.case(core.h(['again', typ, n, move]), True, sample={'kind': typ, 'columns': n, 'move': move, 'second': {k: (v[0] if v[0] == 'ok' else v[1]) for k, v in second.items()}} if typ == '>' else None)
                if any(v[0] != 'ok' for v in first.values()):
                    ctx.fail('a consistent reference does not render', {'op': 'again', 'case': [typ, n, move]}, first={k: v[1] for k, v in first.items() if v[0] != 'ok'})
                    continue
                if move == 'rehome' and n > 1:
                    want = {'table1': 'lib:DBMLError', 'dbml': 'lib:DBMLError'}
                elif move == 'rehome':
                    want = {'table1': 'ok', 'dbml': 'ok', 'sql': 'ok'}      # the single column moved: the side is consistent again
                else:
                    want = {'dbml': 'lib:TableNotFoundError', 'sql': 'lib:TableNotFoundError'}
                for k, w in want.items():
                    got = second[k][0] if second[k][0] == 'ok' else O.norm_class(second[k][1])
                    if got != w:
                        ctx.fail(f'after a column of the reference was {"moved to another table" if move == "rehome" else "removed from its table"}, '
                                 f'asking .{k} again gives {got} instead of {w} (an earlier answer is remembered)', {'op': 'again', 'case': [typ, n, move]})

    # ---- part 2c: an element no table holds behaves as one that was never offered to a table - whatever was tried with it
    # before (an add that was refused, an add followed by a delete, the constructor's own list arguments)
    def never_added(flav):
        tt = Table('t1')
        cc = Column('c1', 'int')
        tt.add_column(cc)
        ix = Index([cc], name='ix', **flav)
        return ix

    def obs_index(ix):
        o = {k: O.run(f) for k, f in (('sql', lambda: ix.sql), ('dbml', lambda: ix.dbml))}
        o = {k: ('ok' if v[0] == 'ok' else O.norm_class(v[1])) for k, v in o.items()}
        o['table is None'] = ix.table is None
        return o

    for flav in FLAVOURS['index']:
        flav = {k: v for k, v in flav.items() if k != 'name'}
        want = obs_index(never_added(flav))
        for hist in ('refused: foreign column', 'refused: foreign column among own ones', 'refused by the constructor', 'added then deleted',
                     'refused twice', 'refused, then accepted by the right table'):
            t1, t2 = Table('t1'), Table('t2')
            c1, c1b, c2 = Column('c1', 'int'), Column('c1b', 'int'), Column('c2', 'int')
            t1.add_column(c1)
            t1.add_column(c1b)
            t2.add_column(c2)
            subj = {'refused: foreign column among own ones': [c1, c2]}.get(hist, [c1])
            ix = Index(subj, name='ix', **flav)
            refused = None
            if hist.startswith('refused: foreign') or hist in ('refused twice', 'refused, then accepted by the right table'):
                for _ in range(2 if hist == 'refused twice' else 1):
                    refused = O.run(lambda: t2.add_index(ix))
            elif hist == 'refused by the constructor':
                refused = O.run(lambda: Table('t3', columns=[Column('z', 'int')], indexes=[ix]))
            else:
                t1.add_index(ix)
                t1.delete_index(ix)
            ctx.case(core.h(['orphan index', hist, sorted(flav.items())]), True,
                     sample={'history': hist, 'flavour': flav} if not flav else None)
            ctx.count('orphan-index:' + hist)
            if refused is not None and refused[0] == 'ok':
                ctx.fail('a table accepts an index over a column it does not hold', {'op': 'orphan_index', 'case': [hist, flav]})
                continue
            if hist == 'refused, then accepted by the right table':
                t1.add_index(ix)
                got = obs_index(ix)
                if got != {'sql': 'ok', 'dbml': 'ok', 'table is None': False} or ix.table is not t1 or not any(x is ix for x in t1.indexes) \
                        or any(x is ix for x in t2.indexes):
                    ctx.fail('an index refused by one table and then added to the table holding its columns does not render there',
                             {'op': 'orphan_index', 'case': [hist, flav]}, got=got)
                continue
            got = obs_index(ix)
            held = any(x is ix for x in t1.indexes + t2.indexes)
            if got != want or held:
                ctx.fail(f'an index no table holds ({hist}) does not behave like one never offered to a table: {got} instead of {want}'
                         + (' and a table lists it' if held else ''), {'op': 'orphan_index', 'case': [hist, flav]}, got=got)
    # the same for a column: refused by add_column (not a Column / ...) is not expressible; removed columns are
    for hist in ('added then deleted', 'deleted by position'):
        tt = Table('t1')
        ca, cb = Column('a', 'int'), Column('b', 'int')
        tt.add_column(ca)
        tt.add_column(cb)
        if hist == 'added then deleted':
            tt.delete_column(cb)
        else:
            tt.delete_column(1)
        fresh_c = Column('b', 'int')
        want = {'table is None': True, 'get_refs': O.norm_class(O.run(lambda: fresh_c.get_refs())[1])}
        r_ = O.run(lambda: cb.get_refs())
        got = {'table is None': cb.table is None, 'get_refs': 'ok' if r_[0] == 'ok' else O.norm_class(r_[1])}
        ctx.case(core.h(['orphan column', hist]), True, sample={'history': hist, 'observed': got})
        if got != want or any(x is cb for x in tt.columns):
            ctx.fail(f'a column removed from its table ({hist}) does not behave like one never added', {'op': 'orphan_column', 'case': [hist]}, got=got)

    # ---- part 3: get_refs on detached objects
    cases = []
    for has_table in (False, True):
        for table_has_db in (False, True):
            t = Table('t')
            c = Column('c', 'int')
            if has_table:
                t.add_column(c)
            if table_has_db:
                Database().add(t)
            got_t = O.run(lambda: t.get_refs())
            got_c = O.run(lambda: c.get_refs())
            cases.append(((has_table, table_has_db), 'ok' if got_t[0] == 'ok' else got_t[1], 'ok' if got_c[0] == 'ok' else got_c[1]))
    gm = None
    if drv is not None:
        gm = drv.ask_many({'op': 'dispatch', 'what': 'get_refs', 'has_table': h, 'table_has_db': d} for (h, d), _, _ in cases)
    for i, ((h, d), gt, gc) in enumerate(cases):
        ctx.case(core.h(['getrefs', h, d]), not (h and d), sample={'has_table': h, 'table_has_db': d, 'table.get_refs': gt, 'column.get_refs': gc})
        if not d and gt != 'lib:UnknownDatabaseError':
            ctx.fail('detached table: get_refs does not raise the unknown-database error', {'op': 'get_refs', 'case': [h, d]}, got=gt)
        if not h and gc != 'lib:TableNotFoundError':
            ctx.fail('detached column: get_refs does not raise the table-not-found error', {'op': 'get_refs', 'case': [h, d]}, got=gc)
        if h and not d and gc != 'lib:UnknownDatabaseError':
            ctx.fail('column of a detached table: get_refs does not raise the unknown-database error (e.g. returns an empty list)',
                     {'op': 'get_refs', 'case': [h, d]}, got=gc)
        if gm is not None and (gm[i].get('table'), gm[i].get('column')) != (gt, gc):
            ctx.diverge('get_refs outcome', {'op': 'get_refs', 'case': [h, d]}, gm[i], [gt, gc])
    if drv is not None:
        drv.close()
    return ctx.finish(
        rule='exhaustive: 6 element kinds x every subset (size<=2, and all) of required attributes unset x attached/detached x '
             'reached by constructor or by editing, rendered directly, through the parent table and through the database; '
             'references: every assignment of {detached, table A, table B, a namesake of table A} to 1-2 (thorough 3, without the namesake) columns per side x 4 kinds x '
             'inline; indexes no table holds after 5 kinds of history x 4 flavours (same behaviour as a never-offered index); get_refs on all 4 attachment states. Non-trivial: something unset / detached / mixed; distinct by case hash',
        explanation='Decision logic stated outright as Lean theorems over the model of check_attributes_for_sql and the '
                    'reference validations; model tied to the real classes by exhaustive enumeration of the finite case space; '
                    'oracle: the statement itself evaluated on the real objects.',
        assumptions=['tables of different names are different under Table.__eq__'],
        trusted_base=['Lean 4.33 kernel', 'axioms: propext, Classical.choice, Quot.sound only',
                      'hand-written model PyDBMLModel/Dispatch.lean tied by this correspondence'],
        proof_problems=problems)


def replay(path):
    case = json.load(open(path))
    print(json.dumps(case, indent=1)[:3000])
    c = case.get('case', {})
    if c.get('op') == 'elem':
        print('impl', elem_job(tuple(c['job'])))
    elif c.get('op') == 'ref':
        print('impl', ref_job(tuple(c['job'])))
    return 0
