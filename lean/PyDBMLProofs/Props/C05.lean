/-
C05 — a parsed database is one consistently linked object graph.
In the model links are positions; "never dangles / is the very object held by the table" is:
every position the build produces is in range of the list it points into.
-/
import PyDBMLModel
namespace PyDBML
namespace C05
open Build Lex

theorem findKey_in_range (tables : List Table) (key : Str) (i : Nat)
    (h : findKey tables key = some i) : i < tables.length := by
  unfold findKey at h
  have := List.mem_of_find?_eq_some h
  simp at this
  exact this

theorem locateTable_in_range (tables : List Table) (schema name : Str) (i : Nat)
    (h : locateTable tables schema name = .ok i) : i < tables.length := by
  unfold locateTable at h
  cases h1 : findKey tables name with
  | some j =>
    simp [h1, pure, Except.pure] at h
    subst h
    exact findKey_in_range _ _ _ h1
  | none =>
    simp only [h1] at h
    cases h2 : findKey tables (fullName schema name) with
    | some j =>
      simp [h2, pure, Except.pure] at h
      subst h
      exact findKey_in_range _ _ _ h2
    | none => simp [h2, throw, throwThe, MonadExceptOf.throw] at h

theorem mapM_all {α β ε} (f : α → Except ε β) (P : β → Prop)
    (hf : ∀ a b, f a = .ok b → P b) :
    ∀ (l : List α) (r : List β), l.mapM f = .ok r → ∀ b ∈ r, P b := by
  intro l
  induction l with
  | nil => intro r h; simp [List.mapM_nil, pure, Except.pure] at h; subst h; simp
  | cons x xs ih =>
    intro r h
    rw [List.mapM_cons] at h
    cases hx : f x with
    | error e => simp [hx, bind, Except.bind] at h
    | ok y =>
      cases hxs : xs.mapM f with
      | error e => simp [hx, hxs, bind, Except.bind] at h
      | ok ys =>
        simp [hx, hxs, bind, Except.bind, pure, Except.pure] at h
        subst h
        intro b hb
        rcases List.mem_cons.mp hb with rfl | hb
        · exact hf _ _ hx
        · exact ih ys hxs b hb

theorem locateCols_in_range (t : Table) (cols : Str) (is : List Nat)
    (h : locateCols t cols = .ok is) : ∀ i ∈ is, i < t.columns.length := by
  unfold locateCols at h
  refine mapM_all _ (fun i => i < t.columns.length) ?_ _ _ h
  intro c i hc
  cases hf : t.columns.findIdx? (fun x => x.name == stripParenSpace c) with
  | none => simp [hf, throw, throwThe, MonadExceptOf.throw] at hc
  | some j =>
    simp [hf, pure, Except.pure] at hc
    subst hc
    exact (List.findIdx?_eq_some_iff_getElem.mp hf).1

/-- every endpoint of a reference the build produces is a column position of a table position of
    the database: the reference is linked to the objects the tables hold, never to a copy and
    never to nothing. -/
theorem build_refs_in_range (db : Db) (rb : Bp.RefBp) (r : Ref) (h : buildRef db rb = .ok r) :
    ∃ t1 t2, db.tables[r.t1]? = some t1 ∧ db.tables[r.t2]? = some t2
      ∧ (∀ i ∈ r.col1, i < t1.columns.length) ∧ (∀ i ∈ r.col2, i < t2.columns.length) := by
  unfold buildRef at h
  cases hA : rb.table1 with
  | none => simp [hA, throw, throwThe, MonadExceptOf.throw, bind, Except.bind] at h
  | some tn1 =>
  cases hB : rb.table2 with
  | none => simp [hA, hB, throw, throwThe, MonadExceptOf.throw, bind, Except.bind] at h
  | some tn2 =>
  cases hC : rb.col1 with
  | none => simp [hA, hB, hC, throw, throwThe, MonadExceptOf.throw, bind, Except.bind] at h
  | some cn1 =>
  cases hD : rb.col2 with
  | none => simp [hA, hB, hC, hD, throw, throwThe, MonadExceptOf.throw, bind, Except.bind] at h
  | some cn2 =>
  simp only [hA, hB, hC, hD, bind, Except.bind] at h
  cases h1 : locateTable db.tables rb.schema1 tn1 with
  | error e => simp [h1] at h
  | ok i1 =>
  simp only [h1] at h
  have hi1 := locateTable_in_range _ _ _ _ h1
  have ht1 : db.tables[i1]? = some db.tables[i1] := List.getElem?_eq_getElem hi1
  simp only [colsAt, ht1] at h
  cases h2 : locateCols db.tables[i1] cn1 with
  | error e => simp [h2] at h
  | ok c1 =>
  simp only [h2] at h
  cases h3 : locateTable db.tables rb.schema2 tn2 with
  | error e => simp [h3] at h
  | ok i2 =>
  simp only [h3] at h
  have hi2 := locateTable_in_range _ _ _ _ h3
  have ht2 : db.tables[i2]? = some db.tables[i2] := List.getElem?_eq_getElem hi2
  simp only [ht2] at h
  cases h4 : locateCols db.tables[i2] cn2 with
  | error e => simp [h4] at h
  | ok c2 =>
  simp only [h4, pure, Except.pure, Except.ok.injEq] at h
  subst h
  exact ⟨_, _, ht1, ht2, locateCols_in_range _ _ _ h2, locateCols_in_range _ _ _ h4⟩

theorem mapM_spec {α β ε} (f : α → Except ε β) (R : α → β → Prop) (hf : ∀ a b, f a = .ok b → R a b) :
    ∀ (l : List α) (r : List β), l.mapM f = .ok r →
      r.length = l.length ∧ ∀ k (hk : k < r.length), ∃ a, l[k]? = some a ∧ R a r[k] := by
  intro l
  induction l with
  | nil =>
    intro r h
    simp [List.mapM_nil, pure, Except.pure] at h
    subst h
    exact ⟨rfl, fun k hk => absurd hk (by simp)⟩
  | cons x xs ih =>
    intro r h
    rw [List.mapM_cons] at h
    cases hx : f x with
    | error e => simp [hx, bind, Except.bind] at h
    | ok y =>
      cases hxs : xs.mapM f with
      | error e => simp [hx, hxs, bind, Except.bind] at h
      | ok ys =>
        simp [hx, hxs, bind, Except.bind, pure, Except.pure] at h
        subst h
        obtain ⟨hl, hr⟩ := ih ys hxs
        refine ⟨by simp [hl], ?_⟩
        intro k hk
        cases k with
        | zero => exact ⟨x, by simp, by simpa using hf _ _ hx⟩
        | succ k' =>
          obtain ⟨a, h1, h2⟩ := hr k' (by simpa using hk)
          exact ⟨a, by simpa using h1, by simpa using h2⟩

/-- the columns a reference side is linked to carry exactly the names the document wrote (one per comma-separated
    piece, in order), and each is the first column of the table with that name -/
theorem locateCols_sound (t : Table) (cols : Str) (is : List Nat) (h : locateCols t cols = .ok is) :
    is.length = (splitComma cols).length ∧
    ∀ k (hk : k < is.length), ∃ piece c, (splitComma cols)[k]? = some piece ∧ t.columns[is[k]]? = some c
      ∧ c.name = stripParenSpace piece
      ∧ ∀ j, j < is[k] → ∀ c', t.columns[j]? = some c' → c'.name ≠ stripParenSpace piece := by
  unfold locateCols at h
  have key : ∀ (piece : Str) (i : Nat),
      (match t.columns.findIdx? (fun x => x.name == stripParenSpace piece) with
        | some i => (pure i : B Nat)
        | none => (throw (PErr.lib "ColumnNotFoundError") : B Nat)) = .ok i →
      ∃ c, t.columns[i]? = some c ∧ c.name = stripParenSpace piece
        ∧ ∀ j, j < i → ∀ c', t.columns[j]? = some c' → c'.name ≠ stripParenSpace piece := by
    intro piece i hpi
    cases hf : t.columns.findIdx? (fun x => x.name == stripParenSpace piece) with
    | none => simp [hf, throw, throwThe, MonadExceptOf.throw] at hpi
    | some j =>
      simp [hf, pure, Except.pure] at hpi
      subst hpi
      obtain ⟨hlt, hp, hbefore⟩ := List.findIdx?_eq_some_iff_getElem.mp hf
      refine ⟨t.columns[j], List.getElem?_eq_getElem hlt, by simpa using hp, ?_⟩
      intro k hk c' hc'
      have hk' : k < t.columns.length := Nat.lt_trans hk hlt
      rw [List.getElem?_eq_getElem hk'] at hc'
      cases hc'
      simpa using hbefore k hk
  obtain ⟨hl, hk⟩ := mapM_spec _ _ key _ _ h
  refine ⟨hl, fun k hk' => ?_⟩
  obtain ⟨piece, hp, c, h1, h2, h3⟩ := hk k hk'
  exact ⟨piece, c, hp, h1, h2, h3⟩

/-- a column type is linked to an enum only when that enum carries exactly the schema and name the type
    text spells (`schema.name`, or bare = schema public), and to the first such enum -/
theorem resolveType_sound (enums : List Enum) (ty : Str) (i : Nat) (h : resolveTypePure enums ty = .enum i) :
    ∃ e, enums[i]? = some e ∧ e.schema = (typeKey ty).1 ∧ e.name = (typeKey ty).2
      ∧ ∀ j, j < i → ∀ e', enums[j]? = some e' → ¬ (e'.schema = (typeKey ty).1 ∧ e'.name = (typeKey ty).2) := by
  unfold resolveTypePure at h
  split at h
  · rename_i j hj
    cases h
    obtain ⟨hlt, hp, hbefore⟩ := List.findIdx?_eq_some_iff_getElem.mp hj
    refine ⟨enums[i], List.getElem?_eq_getElem hlt, ?_, ?_, ?_⟩
    · simp only [Bool.and_eq_true, beq_iff_eq] at hp; exact hp.1
    · simp only [Bool.and_eq_true, beq_iff_eq] at hp; exact hp.2
    · intro k hk e' he'
      have hk' : k < enums.length := Nat.lt_trans hk hlt
      have := hbefore k hk
      rw [List.getElem?_eq_getElem hk'] at he'
      cases he'
      simpa using this
  · cases h

/-- … and a type text spelling an existing enum is always linked (never left as a plain string) -/
theorem resolveType_complete (enums : List Enum) (ty : Str) (e : Enum) (he : e ∈ enums)
    (hs : e.schema = (typeKey ty).1) (hn : e.name = (typeKey ty).2) : ∃ i, resolveTypePure enums ty = .enum i := by
  unfold resolveTypePure
  split
  · rename_i i _; exact ⟨i, rfl⟩
  · rename_i hnone
    exfalso
    rw [List.findIdx?_eq_none_iff] at hnone
    have := hnone e he
    simp [hs, hn] at this

end C05
end PyDBML
